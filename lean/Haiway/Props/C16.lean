import Haiway.Proofs.TimeoutRuns
/-!
# C16 – a call through the timeout wrapper always terminates with the right outcome and leaves
nothing running

Property theorems only.  Model: `Haiway.Timeout` (`Haiway/Model/Timeout.lean`), a finite LTS of
the repaired `_AsyncTimeout.__call__`.  Every theorem quantifies over **all eight function
profiles** (how the function ends × whether it swallows the first cancellation) and over **every
schedule** (every label sequence the LTS accepts / every reachable state).  The state space is
finite; the reachable set of each profile is closed under `step` by kernel evaluation
(`Proofs/TimeoutTab*.lean`, 56–76 states each) and lifted to `Reach` by `reach_mem`.
-/
namespace Haiway.C16
open Haiway.Timeout

/-- C16.outcome: in every run of every profile the caller's outcome is the one dictated by the
first event that completed the result future – the function finishing (its own value, its own
exception of *any* class, or cancellation if it ended cancelled), the deadline (`TimeoutError`),
or the caller's cancellation – and it is cancellation whenever the caller was cancelled before
it resumed.  The right-hand side is a fold over the labels alone. -/
theorem outcome (k : Kind) (ig : Bool) (ls : List Lbl) (s : S) (o : COut)
    (hrun : run (init k ig) ls = some s) (hdone : s.caller = .done o) :
    expected k (ls.foldl see {}).first (ls.foldl see {}).cc = some o := by
  have ⟨hr, hg, hk, _⟩ := run_facts ls (init k ig) s .init hrun
  have hok := (stateOk_parts (reach_stateOk hr)).1
  unfold outcomeOk at hok
  simp only [hdone, beq_iff_eq] at hok
  have hg1 : (ls.foldl see {}).first = s.first := by
    have := congrArg Seen.first hg; simpa [ghost, init] using this.symm
  have hg2 : (ls.foldl see {}).cc = s.cc := by
    have := congrArg Seen.cc hg; simpa [ghost, init] using this.symm
  rw [hg1, hg2]
  have : s.kind = k := by simpa [init] using hk
  rw [← this]; exact hok

/-- C16.caller_cancel_wins: if `cancel()` reached the caller while it was still waiting (the label is
only enabled then) – in particular in the window between the result future being completed and the
caller resuming – the caller ends cancelled, whatever value, exception or timeout the future holds. -/
theorem caller_cancel_wins (k : Kind) (ig : Bool) (ls : List Lbl) (s : S) (o : COut)
    (hrun : run (init k ig) ls = some s) (hdone : s.caller = .done o)
    (hc : ls.contains .callerCancel = true) : o = .cancelled := by
  have h := outcome k ig ls s o hrun hdone
  have hcc : (ls.foldl see {}).cc = true := by rw [see_cc, hc]; simp
  simpa [expected, hcc] using h.symm

/-- C16.outcome, state form: at every reachable state where the caller holds an outcome it is
the expected one. -/
theorem outcome_state (k : Kind) (ig : Bool) (s : S) (o : COut)
    (hr : Reach (init k ig) s) (hdone : s.caller = .done o) :
    expected s.kind s.first s.cc = some o := by
  have hok := (stateOk_parts (reach_stateOk hr)).1
  unfold outcomeOk at hok
  simpa [hdone] using hok

/-- C16.timeout_only_at_deadline: `TimeoutError` reaches the caller only if the timer fired, and
then the function has a cancellation request or is done. -/
theorem timeout_only_at_deadline (k : Kind) (ig : Bool) (s : S)
    (hr : Reach (init k ig) s) (hdone : s.caller = .done .timeout) :
    s.first = some .deadline ∧ s.cc = false := by
  have h := outcome_state k ig s .timeout hr hdone
  unfold expected at h
  cases hc : s.cc <;> cases hf : s.first <;> simp [hc, hf] at h ⊢
  rename_i d
  cases d <;> simp at h ⊢
  cases hk : s.kind <;> simp [hk] at h

/-- C16.cleanup: whenever the caller has its outcome, the function is done or has (had) a
cancellation request; and a timer that is still armed belongs to a function that has not finished
being cleaned up (still running, or its completion callback queued) and firing it does nothing
but mark the timer fired.  (In the code the handle is cancelled by `on_completion`, i.e. when the
function's task ends – for a function that swallows the cancellation that is later than the
caller's outcome.) -/
theorem cleanup (k : Kind) (ig : Bool) (s : S) (o : COut)
    (hr : Reach (init k ig) s) (hdone : s.caller = .done o) :
    fnStoppedOrCancelled s = true ∧
    (s.tmr = .armed → (fnDone s = false ∨ s.qCompletion = true) ∧
        step s .timerFires = some { s with tmr := .fired }) := by
  have hok := (stateOk_parts (reach_stateOk hr)).2.1
  unfold cleanupOk at hok
  have hd : callerDone s = true := by simp [callerDone, hdone]
  simp only [hd, Bool.not_true, Bool.false_or, Bool.and_eq_true, Bool.or_eq_true, bne_iff_ne, ne_eq,
    beq_iff_eq, Bool.not_eq_true'] at hok
  refine ⟨hok.1, fun ha => ?_⟩
  rcases hok.2 with h | h
  · exact absurd ha h
  · exact h

/-- C16.quiescent: in a reachable state where nothing is enabled any more (no callback queued,
timer not armed, function cannot move) the caller has its outcome, the timer is not armed and the
function is done: there is **no** reachable quiescent state with the caller still waiting, and
nothing is left running. -/
theorem quiescent_clean (k : Kind) (ig : Bool) (s : S)
    (hr : Reach (init k ig) s) (hq : ∀ l, step s l = none) :
    (∃ o, s.caller = .done o) ∧ s.tmr ≠ .armed ∧ fnDone s = true := by
  have hok := (stateOk_parts (reach_stateOk hr)).2.2.1
  have hq' : quiescent s = true := by
    simp [quiescent, succs, hq]
  unfold quietOk at hok
  simp only [hq', Bool.not_true, Bool.false_or, Bool.and_eq_true, bne_iff_ne, ne_eq] at hok
  refine ⟨?_, hok.1.2, hok.2⟩
  have := hok.1.1
  unfold callerDone at this
  cases hc : s.caller with
  | done o => exact ⟨o, rfl⟩
  | waiting m => simp [hc] at this

/-- C16.progress: while the caller is still waiting, a move of the wrapper / event loop itself
(`on_completion`, the timer, `on_result`, the caller's wake-up) is enabled: the caller never
depends on the wrapped function finishing or honouring a cancellation. -/
theorem progress (k : Kind) (ig : Bool) (s : S) (m : Bool)
    (hr : Reach (init k ig) s) (hw : s.caller = .waiting m) :
    ∃ l ∈ libLabels, (step s l).isSome = true := by
  have hok := (stateOk_parts (reach_stateOk hr)).2.2.2.1
  unfold progressOk at hok
  have : callerDone s = false := by simp [callerDone, hw]
  simpa [this] using hok

/-- C16.terminates: every run is short – from a reachable state `s` at most `mu s` labels can
follow (`mu (init …) = 12`), so together with `progress` and `quiescent_clean` every maximal
schedule ends, within 12 labels, in a state where the caller has its outcome. -/
theorem terminates (k : Kind) (ig : Bool) (s s' : S) (ls : List Lbl)
    (hr : Reach (init k ig) s) (hrun : run s ls = some s') :
    ls.length + mu s' ≤ mu s ∧ mu (init k ig) = 12 := by
  refine ⟨(run_facts ls s s' hr hrun).2.2.2, ?_⟩
  cases k <;> cases ig <;> decide

/-- C16.calls_independent: overlapping calls through one wrapper.  In every run of a system of
calls (any number, any profiles, any interleaving of their labels) each call's component is the
result of running the single-call LTS on that call's own labels – so `outcome`, `cleanup`,
`quiescent_clean`, `progress` and `terminates` hold for every call, whatever the others do. -/
theorem calls_independent (profiles : List (Kind × Bool)) (tr : List (Nat × Lbl)) (ss : List S)
    (hrun : runSys (profiles.map (fun p => init p.1 p.2)) tr = some ss)
    (j : Nat) (k : Kind) (ig : Bool) (hj : profiles[j]? = some (k, ig)) :
    ∃ s, ss[j]? = some s ∧ run (init k ig) (proj j tr) = some s ∧ Reach (init k ig) s := by
  have h0 : (profiles.map (fun p => init p.1 p.2))[j]? = some (init k ig) := by
    simp [List.getElem?_map, hj]
  obtain ⟨s, hs, hr⟩ := (runSys_proj tr _ ss hrun).2 j _ h0
  exact ⟨s, hs, hr, (run_facts _ _ s .init hr).1⟩

/-- the full statement of the property for the *pinned* (unrepaired) `on_completion` is false:
a function that ends cancelled reaches, on the pinned step function, a state where nothing is
enabled except an outside cancellation of the caller, and the caller is still waiting (the hang
reproduced on the pinned tree). -/
theorem pinned_hangs :
    ∃ ls s, runPinned (init .selfCancel false) ls = some s ∧
      (∀ l, l ≠ .callerCancel → stepPinned s l = none) ∧ s.caller = .waiting false :=
  ⟨[.taskEnds, .runCompletion], _, rfl, by intro l; cases l <;> decide, by decide⟩

/-- same for a function raising a non-`Exception` error -/
theorem pinned_hangs_base :
    ∃ ls s, runPinned (init .baseExc true) ls = some s ∧
      (∀ l, l ≠ .callerCancel → stepPinned s l = none) ∧ s.caller = .waiting false :=
  ⟨[.taskEnds, .runCompletion], _, rfl, by intro l; cases l <;> decide, by decide⟩

/-! ## Non-vacuity -/

/-- deadline first; the function swallows the cancellation, ends later with its own error, which
is dropped; the caller got `TimeoutError`. -/
example :
    run (init .exc true)
      [.timerFires, .runResult, .callerWakes, .taskSeesCancel, .taskEnds, .runCompletion]
    = some { kind := .exc, ignoresFirst := true, fut := .timeout, tsk := .doneOwn, tmr := .fired,
             caller := .done .timeout, first := some .deadline } := by decide

/-- function ends cancelled ⇒ the caller sees cancellation (the repaired behaviour) -/
example :
    (run (init .selfCancel false) [.taskEnds, .runCompletion, .runResult, .callerWakes]).map (·.caller)
      = some (.done .cancelled) := by decide

/-- caller cancelled after the deadline fired but before it resumed ⇒ cancellation wins -/
example :
    (run (init .val false) [.timerFires, .callerCancel, .runResult, .callerWakes]).map (·.caller)
      = some (.done .cancelled) := by decide

/-- the window of `caller_cancel_wins`: function finished, its value is already in the future, the
caller is cancelled before it resumes ⇒ cancelled -/
example :
    (run (init .val false) [.taskEnds, .runCompletion, .callerCancel, .runResult, .callerWakes]).map
        (·.caller) = some (.done .cancelled) := by decide

/-- two overlapping calls: the early one returns, the later one times out; each as if alone -/
example :
    (runSys [init .val false, init .val false]
        [(0, .taskEnds), (1, .timerFires), (0, .runCompletion), (1, .runResult), (0, .runResult),
         (1, .callerWakes), (0, .callerWakes), (1, .taskSeesCancel), (1, .runCompletion)]).map
      (fun ss => ss.map (fun s => (s.caller, s.tmr)))
    = some [(.done .res, .cancelled), (.done .timeout, .fired)] := by decide

/-- a state that satisfies the hypotheses of `cleanup` with the timer still armed -/
example :
    (run (init .val true) [.callerCancel, .runResult, .callerWakes]).map
        (fun s => (s.caller, s.tmr, s.tsk))
      = some (.done .cancelled, .armed, .running true false) := by decide

end Haiway.C16
