import Haiway.Proofs.Queue
/-!
# C17 – AsyncQueue delivers every element exactly once, in order, then the finish reason

Property theorems only.  Model: `Haiway.Queue` (`Haiway/Model/Queue.lean`), one consumer task.
All statements quantify over *every* operation sequence (`List Op`), any length.
-/
namespace Haiway.C17
open Haiway.Queue

/-- C17.accounting: for every operation sequence nothing is lost, duplicated or reordered:
what the consumer received, followed by the element handed to a woken-but-not-yet-running
consumer, followed by the buffer, is exactly what `enqueue` accepted, in order. -/
theorem accounting (ops : List Op) :
    let s := runOps {} ops
    delivered s ++ inFlight s ++ s.buf = s.enq := by
  have : ∀ (ops : List Op) (s : St), Acc s ∧ Wf s → Acc (runOps s ops) ∧ Wf (runOps s ops) := by
    intro ops
    induction ops with
    | nil => intro s h; simpa [runOps] using h
    | cons op ops ih =>
      intro s h
      have := step_inv s op h.1 h.2
      simpa [runOps] using ih (step s op) this
  exact (this ops {} init_inv).1

/-- C17.delivered_prefix: the received elements are always a prefix of the enqueued ones. -/
theorem delivered_prefix (ops : List Op) :
    delivered (runOps {} ops) <+: (runOps {} ops).enq := by
  have h := accounting ops
  simp only at h
  exact ⟨inFlight (runOps {} ops) ++ (runOps {} ops).buf, by simpa [List.append_assoc] using h⟩

/-- C17.enqueue_after_finish: after `finish` an `enqueue` is refused (the driver reports the
refusal as the `RuntimeError` of the real code) and leaves the queue unchanged. -/
theorem enqueue_after_finish (s : St) (e : Nat) (es : List Nat) (h : s.reason.isSome) :
    step s (.enqueue e es) = s := by
  simp [step, h]

/-- one complete receive by an idle consumer: start it and let the loop run -/
def recvRun (s : St) : St := step (step s .recv) .run

/-- C17.after_finish (one step): in a finished queue with an idle consumer a receive yields
the oldest buffered element if there is one, else the finish reason; nothing else changes. -/
theorem after_finish_step (s : St) (r : Reason)
    (hr : s.reason = some r) (hc : s.consumer = .idle) (hm : s.must = false)
    (hw : s.waiting = none) :
    recvRun s =
      match s.buf with
      | e :: rest => { s with buf := rest, got := s.got ++ [.elem e] }
      | [] => { s with got := s.got ++ [.reason r] } := by
  cases hb : s.buf <;>
    simp [recvRun, step, hc, runnable, wake, hm, hb, hr] <;>
    (cases s; simp_all)

/-- `n` complete receives -/
def recvRunN : Nat → St → St
  | 0, s => s
  | n + 1, s => recvRunN n (recvRun s)

/-- C17.after_finish: once finished, the buffered elements are still delivered in order and
then **every** further receive ends with the finish reason. -/
theorem after_finish (s : St) (r : Reason) (k : Nat)
    (hr : s.reason = some r) (hc : s.consumer = .idle) (hm : s.must = false)
    (hw : s.waiting = none) :
    (recvRunN (s.buf.length + k) s).got
      = s.got ++ s.buf.map Obs.elem ++ List.replicate k (Obs.reason r)
    ∧ (recvRunN (s.buf.length + k) s).buf = [] := by
  generalize hn : s.buf.length = n
  induction n generalizing s with
  | zero =>
    have hb : s.buf = [] := List.eq_nil_of_length_eq_zero hn
    induction k generalizing s with
    | zero => simp [recvRunN, hb]
    | succ k ih =>
      have hstep := after_finish_step s r hr hc hm hw
      rw [hb] at hstep
      simp only at hstep
      have := ih (recvRun s) (by rw [hstep]; exact hr) (by rw [hstep]; exact hc)
        (by rw [hstep]; exact hm) (by rw [hstep]; exact hw) (by rw [hstep]; simp [hb])
        (by rw [hstep])
      simp only [Nat.zero_add] at this ⊢
      simp only [recvRunN]
      rw [this.1, this.2, hstep]
      simp [hb, List.replicate_succ]
  | succ n ih =>
    match hb : s.buf with
    | [] => simp [hb] at hn
    | e :: rest =>
      have hstep := after_finish_step s r hr hc hm hw
      rw [hb] at hstep
      simp only at hstep
      have hlen : rest.length = n := by simpa [hb] using hn
      have := ih (recvRun s) (by rw [hstep]; exact hr) (by rw [hstep]; exact hc)
        (by rw [hstep]; exact hm) (by rw [hstep]; exact hw) (by rw [hstep]; exact hlen)
      have e1 : n + 1 + k = (n + k) + 1 := by omega
      rw [e1]
      simp only [recvRunN]
      rw [this.1, this.2, hstep]
      simp

/-- C17.resume: cancelling a pending receive (before or after an element was handed over) leaves
a state in which the accounting holds again – a corollary of `accounting`, spelled out for the
history "… cancelRecv, run, more operations". -/
theorem resume (ops₁ ops₂ : List Op) :
    let s := runOps {} (ops₁ ++ [.cancelRecv, .run] ++ ops₂)
    delivered s ++ inFlight s ++ s.buf = s.enq :=
  accounting _

/-! ## Non-vacuity -/

/-- a history in which an element is handed to the waiting consumer and the consumer is cancelled
before it wakes: the element is back in the buffer and is delivered by the next receive. -/
example :
    let s := runOps {} [.recv, .run, .enqueue 7 [], .cancelRecv, .run, .recv, .run]
    s.got = [.cancelled, .elem 7] ∧ s.enq = [7] := by decide

example :
    let s : St := { buf := [1, 2], reason := some .stop, enq := [1, 2] }
    (recvRunN (s.buf.length + 2) s).got = [.elem 1, .elem 2, .reason .stop, .reason .stop] := by
  decide

end Haiway.C17
