import Haiway.Model.Wrap
/-!
# C18 – asynchronous / wrap_async / traced are transparent and carry the caller context; decorators keep metadata

Model: `Haiway.Wrap` (`Haiway/Model/Wrap.lean`).  Every statement quantifies over **every** callable
(`f.run : Args → Ctx → World → Outcome × Ctx × World` arbitrary: any result or exception, any change to the context
it runs in, any effect on the metrics heap), every argument token, every caller context and every heap.
The theorems are short: the wrappers are glue, and the substance of this property is the correspondence run
(signatures, call forms, executors, nestings).  "Runs off the event-loop thread so the loop keeps serving other
tasks" is a runtime fact that no step of this model exhibits; it is measured by the harness (thread identity,
heartbeat progress) – the property is *partial* for that clause.
-/
namespace Haiway.C18
open Haiway.Wrap

/-! ## transparent: same result, same exception, for the same arguments -/

/-- the full transparency statement for `asynchronous` -/
def transparent_asynchronous_statement : Prop :=
  ∀ (f : Fn) (a : Nat) (c : Ctx) (w : World), (callAsynchronous f a c w).1 = (f.run a c w).1

/-- the exception classes the loop re-creates on the way from the executor's future to the awaiting task -/
def Converted (e : Exc) : Prop := e.cls = cfCancelled ∨ e.cls = timeoutError ∨ e.cls = cfInvalidState

/-- C18.transparent (asynchronous), partial: the awaited call returns exactly the value the function returns, and
raises exactly the exception object the function raises, for the same arguments in (a copy of) the caller's context
– for every result and every exception except the three classes of `Converted`. -/
theorem transparent_asynchronous_partial (f : Fn) (a : Nat) (c : Ctx) (w : World)
    (h : ∀ e, (f.run a c w).1 = .raise e → ¬ Converted e) :
    (callAsynchronous f a c w).1 = (f.run a c w).1 := by
  simp only [callAsynchronous]
  cases hr : (f.run a c w).1 with
  | ret v => rfl
  | raise e =>
    have := h e hr
    simp only [Converted, not_or] at this
    simp [convertOutcome, convertFutureExc, this.1, this.2.1, this.2.2]

/-- what happens to the three classes: same arguments, but a new object – and for two of them another class. -/
theorem asynchronous_converts (f : Fn) (a : Nat) (c : Ctx) (w : World) (e : Exc) (hr : (f.run a c w).1 = .raise e) :
    (callAsynchronous f a c w).1 = .raise (convertFutureExc e) := by
  simp [callAsynchronous, hr, convertOutcome]

/-- the full statement is false: a function raising `concurrent.futures.CancelledError` (object 7) – the caller
gets a fresh `asyncio.CancelledError`; a function raising `TimeoutError` – the caller gets another `TimeoutError`
object. -/
theorem transparent_asynchronous_refuted : ¬ transparent_asynchronous_statement := by
  intro h
  have := h { id := 0, name := 0, doc := none, run := unbound (.raise { cls := cfCancelled, obj := 7 }) } 0 {} {}
  revert this
  decide

theorem transparent_asynchronous_refuted_timeout : ¬ transparent_asynchronous_statement := by
  intro h
  have := h { id := 0, name := 0, doc := none, run := unbound (.raise { cls := timeoutError, obj := 7 }) } 0 {} {}
  revert this
  decide

/-- C18.transparent (wrap_async) -/
theorem transparent_wrap_async (f : Fn) (a : Nat) (c : Ctx) (w : World) :
    (callWrapAsync f a c w).1 = (f.run a c w).1 := rfl

/-- C18.transparent (traced): what the traced call returns / raises is what the function returns / raises when it
runs inside the tracing scope, with the same arguments. -/
theorem transparent_traced (f : Fn) (a : Nat) (c : Ctx) (w : World) :
    (callTraced f a c w).1 =
      (f.run a (tracedEnter f c w).1 (record (tracedEnter f c w).2 (tracedEnter f c w).1 (.args a))).1 := rfl

/-- in particular, for a function whose outcome does not depend on the metrics scope it runs in (it may depend on
the arguments and on the visible state), `traced` does not change the outcome. -/
theorem transparent_traced_scope_independent (f : Fn) (a : Nat) (c : Ctx) (w : World) (s : Nat)
    (hs : c.state = some s)
    (hind : ∀ c₁ c₂ w₁ w₂, c₁.state = c₂.state → (f.run a c₁ w₁).1 = (f.run a c₂ w₂).1) :
    (callTraced f a c w).1 = (f.run a c w).1 := by
  rw [transparent_traced]
  exact hind _ _ _ _ (by simp [tracedEnter, hs])

/-! ## context in: the function observes the caller's state -/

/-- C18.context_in (asynchronous / wrap_async): the function runs on exactly the caller's context value. -/
theorem context_in_asynchronous (f : Fn) (a : Nat) (c : Ctx) (w : World) :
    callAsynchronous f a c w = (convertOutcome (f.run a c w).1, c, (f.run a c w).2.2) := rfl

theorem context_in_wrap_async (f : Fn) (a : Nat) (c : Ctx) (w : World) :
    callWrapAsync f a c w = f.run a c w := rfl

/-- C18.context_in (traced): inside the tracing scope the visible state is the caller's (a fresh empty state
context when the caller had none), every other variable is the caller's, and the current scope is the new one. -/
theorem context_in_traced (f : Fn) (c : Ctx) (w : World) :
    (tracedEnter f c w).1.state = some (c.state.getD 0) ∧
    (tracedEnter f c w).1.other = c.other ∧
    (tracedEnter f c w).1.scope = some w.nodes.length := ⟨rfl, rfl, rfl⟩

theorem context_in_traced_scoped (f : Fn) (c : Ctx) (w : World) (s : Nat) (hs : c.state = some s) :
    (tracedEnter f c w).1.state = c.state := by simp [tracedEnter, hs]

/-- C18.context_in (task group): a task the function spawns through `ctx.spawn` joins the **caller's** task group, for
`wrap_async` and for `traced` (whose scope is a synchronous one and opens no group of its own): it is awaited by the
caller's scope, not by the wrapper – the call returns while the task is still running. -/
theorem spawn_joins_callers_group (id name : Nat) (doc : Option Nat) (b : Behaviour) (a : Nat) (c : Ctx) (w : World)
    (hb : ∀ a c w, (b a c w).2.2.spawns = w.spawns) :
    let f : Fn := { id := id, name := name, doc := doc, run := spawning b }
    (callWrapAsync f a c w).2.2.spawns = w.spawns ++ [c.other] ∧
    (callTraced f a c w).2.2.spawns = w.spawns ++ [c.other] := by
  have hrec : ∀ (w : World) (c : Ctx) (r : Rec), (record w c r).spawns = w.spawns := by
    intro w c r
    simp only [record]
    split
    · rfl
    · split <;> rfl
  have hfin : ∀ (w : World) (n : Nat), (finish w n).spawns = w.spawns := by
    intro w n
    simp only [finish]
    split <;> rfl
  refine ⟨by simp [callWrapAsync, spawning, hb], ?_⟩
  simp [callTraced, spawning, hb, hrec, hfin, tracedEnter]

/-! ## context not out -/

/-- C18.context_not_out (asynchronous): whatever the function does to the context it runs in – enter blocks it never
leaves, set any variable – the caller's context after the call is the one before. -/
theorem context_not_out_asynchronous (f : Fn) (a : Nat) (c : Ctx) (w : World) :
    (callAsynchronous f a c w).2.1 = c := rfl

/-- what does cross the boundary is the shared heap: metrics the function records in the caller's scope stay. -/
theorem asynchronous_heap_shared (f : Fn) (a : Nat) (c : Ctx) (w : World) :
    (callAsynchronous f a c w).2.2 = (f.run a c w).2.2 := rfl

/-- C18.context_not_out (traced): state and current scope are the caller's again after the call, whatever the
function left behind. -/
theorem context_not_out_traced (f : Fn) (a : Nat) (c : Ctx) (w : World) :
    (callTraced f a c w).2.1.state = c.state ∧ (callTraced f a c w).2.1.scope = c.scope := ⟨rfl, rfl⟩

/-- `wrap_async` makes no such promise (and the property asks none): the function runs in the caller's own context. -/
theorem wrap_async_shares_context (f : Fn) (a : Nat) (c : Ctx) (w : World) :
    (callWrapAsync f a c w).2.1 = (f.run a c w).2.1 := rfl

/-! ## traced records -/

/-- C18.traced_records: for a function that leaves the heap alone and stays in the scope it was called in, the
tracing scope is a new node named after the function, nested under the caller's scope, holding exactly the
arguments record followed by the result record (value or exception), and finished; the rest of the heap is
untouched. -/
theorem traced_records (f : Fn) (a : Nat) (c : Ctx) (w : World) (o : Outcome)
    (hpure : ∀ c' w', f.run a c' w' = (o, c', w')) :
    (callTraced f a c w).1 = o ∧
    (callTraced f a c w).2.2.nodes =
      w.nodes ++ [{ name := f.name, parent := c.scope, recs := [.args a, .result o], finished := true }] := by
  simp [callTraced, hpure, tracedEnter, record, finish]

/-- … and the scripted test functions of the harness (which also record a metric of their own and may leak a
`ctx.updated` block): the metric lands in the tracing scope between the two trace records. -/
theorem traced_records_scripted (name : Nat) (o : Outcome) (leak k : Nat) (hk : k ≠ 0) (a : Nat) (c : Ctx) (w : World) :
    let f : Fn := { id := 0, name := name, doc := none, run := scripted o leak k }
    (callTraced f a c w).2.2.nodes =
      w.nodes ++ [{ name := name, parent := c.scope, recs := [.args a, .metric k, .result o], finished := true }] := by
  by_cases hl : leak = 0 <;> simp [callTraced, scripted, tracedEnter, record, finish, hk, hl]

/-! ## the receiver of a method call is an argument like any other -/

theorem record_recvs (w : World) (c : Ctx) (r : Rec) : (record w c r).recvs = w.recvs := by
  simp only [record]
  split
  · rfl
  · split <;> rfl

theorem finish_recvs (w : World) (n : Nat) : (finish w n).recvs = w.recvs := by
  simp only [finish]
  split <;> rfl

theorem scripted_recvs (o : Outcome) (leak k a : Nat) (c : Ctx) (w : World) :
    (scripted o leak k a c w).2.2.recvs = w.recvs := by
  simp only [scripted]
  split
  · rfl
  · exact record_recvs _ _ _

/-- one call of a scripted method through any of the three wrappers logs exactly its own receiver -/
theorem call_recvs (o : Outcome) (leak k recv a : Nat) (c : Ctx) (w : World) (id name : Nat) (doc : Option Nat) :
    (callAsynchronous (scriptedMethod id name doc o leak k recv) a c w).2.2.recvs = w.recvs ++ [recv] ∧
    (callWrapAsync (scriptedMethod id name doc o leak k recv) a c w).2.2.recvs = w.recvs ++ [recv] ∧
    (callTraced (scriptedMethod id name doc o leak k recv) a c w).2.2.recvs = w.recvs ++ [recv] := by
  refine ⟨?_, ?_, ?_⟩
  · simp [callAsynchronous, scriptedMethod, scripted_recvs]
  · simp [callWrapAsync, scriptedMethod, scripted_recvs]
  · simp [callTraced, scriptedMethod, scripted_recvs, finish_recvs, record_recvs, tracedEnter]

/-- C18.receiver_preserved: for every sequence of method calls – the same instance again, copies of it, other
instances, in any order – each call runs on the receiver it was made on: the receivers the function saw are exactly
the receivers of the calls, in order (nothing is cached per instance or shared through a copied `__dict__`). -/
theorem receiver_preserved (o : Outcome) (leak k id name : Nat) (doc : Option Nat)
    (call : Fn → Nat → Ctx → World → Outcome × Ctx × World)
    (hcall : call = callAsynchronous ∨ call = callWrapAsync ∨ call = callTraced) :
    ∀ (calls : List (Nat × Nat)) (c : Ctx) (w : World),
      (callSeq call (scriptedMethod id name doc o leak k) calls c w).2.2.recvs = w.recvs ++ calls.map (·.1)
  | [], c, w => by simp [callSeq]
  | (recv, a) :: rest, c, w => by
    have h1 : (call (scriptedMethod id name doc o leak k recv) a c w).2.2.recvs = w.recvs ++ [recv] := by
      have := call_recvs o leak k recv a c w id name doc
      rcases hcall with h | h | h <;> subst h
      · exact this.1
      · exact this.2.1
      · exact this.2.2
    have ih := receiver_preserved o leak k id name doc call hcall rest
      (call (scriptedMethod id name doc o leak k recv) a c w).2.1
      (call (scriptedMethod id name doc o leak k recv) a c w).2.2
    simp only [callSeq, ih, h1, List.map_cons, List.append_assoc, List.singleton_append]

/-! ## metadata -/

/-- C18.metadata: for each of the seven decorators the decorated object carries the function's name, its docstring
(also when there is none) and a reference to the function. -/
theorem metadata (d : Deco) (f : Fn) : decorate d f = { name := f.name, doc := f.doc, wrapped := f.id } := rfl

theorem metadata_all (f : Fn) :
    ∀ d ∈ [Deco.asynchronous, .wrapAsync, .traced, .cache, .retry, .throttle, .timeout],
      (decorate d f).name = f.name ∧ (decorate d f).doc = f.doc ∧ (decorate d f).wrapped = f.id :=
  fun _ _ => ⟨rfl, rfl, rfl⟩

/-- C18.metadata_stacked: decorators applied on top of each other (any number, any of the seven, in any order): the
outermost object still carries the original function's name and docstring, and every layer's `__wrapped__` refers to
the object it was applied to – peeling the layers one by one reaches the original function, no layer is skipped. -/
theorem metadata_stacked (ds : List (Deco × Nat)) (f : Fn) :
    (stackFn ds f).name = f.name ∧ (stackFn ds f).doc = f.doc ∧
    ∀ d i rest, ds = (d, i) :: rest →
      (decorate d (stackFn rest f)).wrapped = (stackFn rest f).id ∧ (stackFn ds f).id = i := by
  induction ds with
  | nil => exact ⟨rfl, rfl, fun _ _ _ h => by cases h⟩
  | cons x rest ih =>
    obtain ⟨d, i⟩ := x
    refine ⟨ih.1, ih.2.1, ?_⟩
    intro d' i' rest' h
    cases h
    exact ⟨rfl, rfl⟩

/-! ## non-vacuity -/

/-- a function that raises, leaks a state block and records a metric, called through `asynchronous` inside a scope -/
example :
    let f : Fn := { id := 7, name := 98, doc := some 1, run := scripted (.raise { cls := 1, obj := 3 }) 9 4 }
    let cw := enterSite [(0, 1), (1, 5)] 0 { state := some 0, scope := some 0 } { nodes := [{ name := 99, parent := none }] }
    let r := callAsynchronous f 0 cw.1 cw.2
    r.1 = .raise { cls := 1, obj := 3 } ∧ r.2.1 = { state := some 5, scope := some 1 } ∧
    r.2.2.seen = [{ state := some 5, scope := some 1 }] ∧
    (r.2.2.nodes[1]?).map (·.recs) = some [.metric 4] := by decide

/-- the same function through `traced`: its leak does not reach the caller, its metric is in the tracing scope -/
example :
    let f : Fn := { id := 7, name := 98, doc := some 1, run := scripted (.ret 3) 9 4 }
    let r := callTraced f 0 { state := some 2, scope := some 0 } { nodes := [{ name := 99, parent := none }] }
    r.1 = .ret 3 ∧ r.2.1 = { state := some 2, scope := some 0 } ∧
    r.2.2.nodes[1]? = some { name := 98, parent := some 0, recs := [.args 0, .metric 4, .result (.ret 3)], finished := true } := by
  decide

/-- a cancellation delivered while the traced coroutine is suspended is an outcome like any other: recorded, re-raised -/
example :
    let f : Fn := { id := 7, name := 98, doc := none, run := scripted (.raise { cls := aioCancelled, obj := 0 }) 0 0 }
    let r := callTraced f 0 { state := some 2, scope := some 0 } { nodes := [{ name := 99, parent := none }] }
    r.1 = .raise { cls := aioCancelled, obj := 0 } ∧
    (r.2.2.nodes[1]?).map (·.recs) = some [.args 0, .result (.raise { cls := aioCancelled, obj := 0 })] := by decide

/-- instance, a copy of it, the instance again, a subclass instance twice: every call sees its own receiver -/
example :
    let m := scriptedMethod 7 98 none (.ret 3) 0 0
    (callSeq callAsynchronous m [(1, 0), (2, 0), (1, 0), (4, 0), (4, 0)] {} {}).2.2.recvs = [1, 2, 1, 4, 4] := by decide

/-- through `wrap_async` the leak is visible to the caller -/
example :
    let f : Fn := { id := 7, name := 98, doc := none, run := scripted (.ret 3) 9 0 }
    (callWrapAsync f 0 { state := some 2 } {}).2.1.state = some 9 := by decide

end Haiway.C18
