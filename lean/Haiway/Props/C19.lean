import Haiway.Proofs.Logs
import Haiway.Proofs.ScopeRun
import Haiway.Proofs.ScopeRunInfo
/-!
# C19 – context log lines go to the scope's logger tagged with an inherited trace id

Property theorems only.  Model: `Haiway.Logs` (`mkScope` = `MetricsContext.scope` + `ScopeMetrics.__init__`,
`pfx` = the scope prefix, `logIn` = `ctx.log_*`, `render` = `msg % args`) and the program-level system
`Haiway.ScopeRun`.  Scope names, given trace ids, user formats and argument lists are arbitrary.
-/
namespace Haiway.C19
open Haiway Haiway.Logs

/-- C19.trace_inherit (local rule): a scope's trace id is its own if given, else the enclosing scope's,
and an outermost scope without one gets a fresh id. -/
theorem trace_inherit (cur : Option Scope) (spec : Spec) (id : Nat) :
    (mkScope cur spec id).trace =
      match spec.trace, cur with
      | some t, _ => .given t
      | none, some p => p.trace
      | none, none => .fresh id := by
  cases h : spec.trace <;> cases cur <;> simp [mkScope, h]

/-- C19.trace_inherit (closed form): along any path of nested scopes, outermost first, the innermost scope
carries the nearest explicitly given trace id; if nobody on the path gave one, the fresh id generated for the
outermost scope. -/
theorem trace_inherit_path (spec : Spec) (id : Nat) (rest : List (Spec × Nat)) (c : Scope)
    (h : build none ((spec, id) :: rest) = some c) :
    c.trace = match nearestTrace ((spec, id) :: rest) with
      | some t => .given t
      | none => .fresh id := by
  simp only [build] at h
  rw [build_trace rest _ c h, nearestTrace_cons]
  cases nearestTrace rest with
  | some t => rfl
  | none => cases hs : spec.trace <;> simp [mkScope, hs]

/-- C19.logger_chain: the logger is the scope's own if given, else the nearest enclosing scope's, else the
one named after the outermost scope. -/
theorem logger_chain (spec : Spec) (id : Nat) (rest : List (Spec × Nat)) (c : Scope)
    (h : build none ((spec, id) :: rest) = some c) :
    c.logger = match nearestLogger ((spec, id) :: rest) with
      | some k => .supplied k
      | none => .named spec.name := by
  simp only [build] at h
  rw [build_logger rest _ c h, nearestLogger_cons]
  cases nearestLogger rest with
  | some t => rfl
  | none => cases hs : spec.logger <;> simp [mkScope, hs]

/-- C19.logger_chain (local rule). -/
theorem logger_chain_local (cur : Option Scope) (spec : Spec) (id : Nat) :
    (mkScope cur spec id).logger =
      match spec.logger, cur with
      | some k, _ => .supplied k
      | none, some p => p.logger
      | none, none => .named spec.name := by
  cases h : spec.logger <;> cases cur <;> simp [mkScope, h]

/-- C19.not_lost: if the caller's own format and arguments agree (`msg % args` yields `text`, or there are no
arguments), the record emitted inside a scope formats too – it is not lost – and its text is the scope
prefix, a blank, and `text`: **for every scope**, whatever its name and trace id contain. -/
theorem not_lost (c : Scope) (lv : Level) (msg : List Char) (args : List Arg) (exc : Bool) (text : List Char)
    (h : format msg args = some text) :
    (logIn (some c) lv msg args exc).text = some (pfx c ++ ' ' :: text) := by
  simp only [logIn, Emitted.text, format] at *
  by_cases ha : args.isEmpty
  · simp only [ha, ↓reduceIte, Option.some.injEq] at h ⊢
    rw [h]
  · simp only [ha, Bool.false_eq_true, ↓reduceIte] at h ⊢
    by_cases hm : isMapping args
    · simp only [hm, ↓reduceIte] at h ⊢
      rw [renderMap_escape_append, renderMap_cons_ne ' ' msg args (by decide), h]
      simp
    · simp only [hm, Bool.false_eq_true, ↓reduceIte] at h ⊢
      rw [render_escape_append, render_cons_ne ' ' msg args (by decide), h]
      simp

/-- C19.tagged: every record logged through the context inside a scope is emitted at the requested level to
that scope's logger, carries the exception when one was passed, and its text – when the caller's format and
arguments agree – starts with `[trace id] [name] [identifier]` (the name part is omitted for the empty
name) followed by the caller's text. -/
theorem tagged (c : Scope) (lv : Level) (msg : List Char) (args : List Arg) (exc : Bool) :
    let e := logIn (some c) lv msg args exc
    e.logger = c.logger ∧ e.level = lv ∧ e.exc = exc ∧ e.args = args ∧
    (∀ text, format msg args = some text →
      e.text = some ((if c.name.isEmpty
          then bracket (showTrace c.trace) ++ ' ' :: bracket (showIdent c.id)
          else bracket (showTrace c.trace) ++ ' ' :: bracket c.name ++ ' ' :: bracket (showIdent c.id))
        ++ ' ' :: text)) := by
  refine ⟨rfl, rfl, rfl, rfl, ?_⟩
  intro text h
  have := not_lost c lv msg args exc text h
  simpa [pfx] using this

/-- C19.identifier_unique: in every reachable state of the program-level system – any number of scopes constructed
by any tasks in any order, scopes long gone included (the record of a scope is never dropped or rewritten) – two
different scopes carry different identifiers: the identifier of scope number `n` is `n`'s own. -/
theorem identifier_unique (evs : List ScopeRun.Ev) (n m : Nat) (c d : Scope) :
    let s := ScopeRun.run ScopeRun.init evs
    s.info n = some c → s.info m = some d → n ≠ m → c.id ≠ d.id := by
  intro s hc hd hne heq
  have inv := ScopeRun.run_info evs ScopeRun.init ScopeRun.infoOwn_init
  exact hne (by rw [← inv n c hc, ← inv m d hd, heq])

/-- C19.fresh_trace_unique: an outermost scope without a given trace id gets a fresh one – the one generated for
*that* scope – so two such scopes (at any distance in time) never share a trace id. -/
theorem fresh_trace_unique (spec spec' : Spec) (id id' : Nat) (h : spec.trace = none) (h' : spec'.trace = none)
    (hne : id ≠ id') : (mkScope none spec id).trace ≠ (mkScope none spec' id').trace := by
  simp only [mkScope, h, h']
  intro heq
  exact hne (by injection heq)

/-- C19.outside_root: outside any scope the record goes to the root logger, untagged: format, arguments,
level and exception exactly as passed. -/
theorem outside_root (lv : Level) (msg : List Char) (args : List Arg) (exc : Bool) :
    logIn none lv msg args exc = { logger := .root, level := lv, fmt := msg, args := args, exc := exc } := rfl

/-- C19.tagged_run: in every reachable state of the program-level system a `ctx.log_*` call by an acting
task emits exactly one record: the one `logIn` builds for the scope found in the task's own context variable –
which holds the lexically innermost scope active in that task (see `C10.attribution`) – or for no scope. -/
theorem tagged_run (evs : List ScopeRun.Ev) (t : Nat) (lv : Level) (msg : List Char) (args : List Arg) (exc : Bool) :
    let s := ScopeRun.run ScopeRun.init evs
    ScopeRun.canAct s t = true → ∀ cur, ScopeRun.scopeOf s (s.tasks t).cur = some cur →
      (ScopeRun.step s (.log t lv msg args exc)).emitted = s.emitted ++ [logIn cur lv msg args exc] ∧
      (s.tasks t).cur = ScopeRun.innermost (s.tasks t) := by
  intro s hact cur hcur
  refine ⟨?_, (ScopeRun.run_ctx evs ScopeRun.init ScopeRun.allCtxOk_init t).1⟩
  simp only [ScopeRun.step, hact, ↓reduceIte, hcur]

/-- C19.never_raises: logging is a total function of the model – every call yields a record (possibly one
whose text cannot be built: `text = none`, dropped by the handler), never an exception.  A record is lost only
if the caller's own format and arguments disagree. -/
theorem lost_only_if_user_format_wrong (c : Scope) (lv : Level) (msg : List Char) (args : List Arg) (exc : Bool) :
    (logIn (some c) lv msg args exc).text = none → format msg args = none := by
  intro h
  cases hf : format msg args with
  | none => rfl
  | some text => rw [not_lost c lv msg args exc text hf] at h; cases h

/-! ## Non-vacuity -/

/-- a '%' in the scope name, arguments present: the record formats and the name appears unescaped -/
example :
    (logIn (some (mkScope none { name := "50%".toList } 0)) .info "hello %s".toList [.str "w".toList] false).text
      = some "[@t0] [50%] [@i0] hello w".toList := by decide

/-- without arguments nothing is formatted: neither the prefix nor the message is touched -/
example :
    (logIn (some (mkScope none { name := "%s".toList } 0)) .warning "rate 100%".toList [] false).text
      = some "[@t0] [%s] [@i0] rate 100%".toList := by decide

/-- outer gives a trace id, inner inherits it and the outer logger; a third level overrides the logger -/
example :
    (build none [({ name := "outer".toList, trace := some "tr1".toList }, 0), ({ name := "inner".toList }, 1),
                 ({ name := "x".toList, logger := some 2 }, 2)]).map (fun c => (c.trace, c.logger))
      = some (.given "tr1".toList, .supplied 2) := by decide

/-- a single mapping argument with named placeholders, '%' in the scope name: the record formats -/
example :
    (logIn (some (mkScope none { name := "50%".toList } 0)) .info "user %(name)s has %(n)d".toList
        [.kvStr "name".toList "bob".toList, .kvInt "n".toList 3] false).text
      = some "[@t0] [50%] [@i0] user bob has 3".toList := by decide

/-- a disagreeing user format is lost (not raised) -/
example : (logIn (some (mkScope none { name := "a".toList } 0)) .error "%d".toList [.str "x".toList] false).text = none := by
  decide

/-- after a scope whose disposable cleanup raised has been left, the task's context variable is back at the
enclosing scope: later lines are tagged with the enclosing scope (by `tagged_run`) -/
example :
    let evs := [ScopeRun.Ev.openScope 0 true false { name := "outer".toList, trace := some "tr1".toList },
                .openScope 0 true true { name := "inner".toList, logger := some 1 }, .exit 0 false]
    ((ScopeRun.run ScopeRun.init evs).tasks 0).cur = some 0 := by
  decide

end Haiway.C19
