import Haiway.Proofs.Missing
/-!
# C20 – MISSING is a process-wide singleton under every way of obtaining it

Property theorems only.  Model: `Haiway.Missing` (`Haiway/Model/Missing.lean`): value trees in
which an instance of `Missing` carries its object identity; `missing 0` is the constant.
All statements quantify over **every** value tree (any depth, any mix of containers, `State`
instances and look-alikes) and every pickle protocol.
-/
namespace Haiway.C20
open Haiway.Missing

/-- C20.singleton (calling the type) -/
theorem singleton_call : callType = .missing 0 := rfl

/-- C20.singleton (copy): copying an instance yields the constant, and copying anything else
shares its children, so a tree holding only the singleton stays one. -/
theorem singleton_copy (v : Val) :
    (∀ i, v = .missing i → copy v = .missing 0) ∧ (allSingleton v = true → allSingleton (copy v) = true) :=
  ⟨by intro i h; subst h; rfl, copy_singleton⟩

/-- C20.singleton (deepcopy): **whatever** tree goes in, every instance of `Missing` in the deep
copy is the constant. -/
theorem singleton_deepcopy (v : Val) : allSingleton (deepcopy v) = true :=
  deepcopy_singleton_all.1 v

/-- C20.singleton (pickle): same for a successful pickle round trip, every protocol. -/
theorem singleton_pickle (p : Nat) (v r : Val) (h : pickle p v = .ok r) : allSingleton r = true :=
  pickle_singleton h

/-- a pickle round trip of a tree without `State` instances succeeds for protocols 0–5 -/
theorem pickle_succeeds (p : Nat) (v : Val) (hp : p ≤ 5) (hv : picklable v = true) :
    pickle p v = .ok (deepcopy v) := by
  unfold pickle
  have : ¬ p > 5 := by omega
  simp [this, hv]

/-- C20.singleton: every value obtained in any of the ways the property lists – the constant,
`Missing()`, construction of containers and `State` instances, taking elements / attributes,
`copy`, `deepcopy`, pickle round trip with any protocol, in any combination and nesting – holds
no instance of `Missing` other than the constant. -/
theorem singleton (v : Val) (h : Obtained v) : allSingleton v = true := by
  induction h with
  | const => rfl
  | call => rfl
  | none => rfl
  | bool => rfl
  | int => rfl
  | str => rfl
  | alwaysEq => rfl
  | pretender => rfl
  | list _ ih => simpa [allSingleton, allSingletonList_iff] using ih
  | tuple _ ih => simpa [allSingleton, allSingletonList_iff] using ih
  | set _ ih => simpa [allSingleton, allSingletonList_iff] using ih
  | frozenset _ ih => simpa [allSingleton, allSingletonList_iff] using ih
  | dict _ _ ih1 ih2 =>
    simp only [allSingleton, allSingletonPairs_iff]
    intro kv hkv; exact ⟨ih1 kv hkv, ih2 kv hkv⟩
  | state _ ih => simpa [allSingleton, allSingletonFields_iff] using ih
  | listElem _ hm ih => exact (allSingletonList_iff _).mp (by simpa [allSingleton] using ih) _ hm
  | tupleElem _ hm ih => exact (allSingletonList_iff _).mp (by simpa [allSingleton] using ih) _ hm
  | dictValue _ hm ih =>
    exact ((allSingletonPairs_iff _).mp (by simpa [allSingleton] using ih) _ hm).2
  | attr _ hm ih =>
    exact (allSingletonFields_iff _).mp (by simpa [allSingleton] using ih) _ hm
  | copy _ ih => exact copy_singleton ih
  | deepcopy _ _ => exact deepcopy_singleton_all.1 _
  | pickle _ hp _ => exact pickle_singleton hp

/-- C20.singleton, corollary: an obtained value that is an instance of `Missing` *is* `MISSING`. -/
theorem obtained_missing_is_constant (i : Nat) (h : Obtained (.missing i)) : i = 0 := by
  simpa [allSingleton] using singleton _ h

/-- copies are faithful: a tree holding only the singleton is reproduced exactly (so e.g.
`as_dict` of a copied state equals that of the original). -/
theorem deepcopy_faithful (v : Val) (h : allSingleton v = true) : deepcopy v = v :=
  deepcopy_faithful_all.1 v h

/-- C20.predicates: `is_missing v` holds exactly when `v` is the constant – for every `v`,
including None, False, empty containers, always-equal objects and would-be second instances –
`not_missing` is its negation and `when_missing` substitutes the default exactly then. -/
theorem predicates (v dflt : Val) :
    (isMissing v = true ↔ v = .missing 0) ∧
    (notMissing v = true ↔ v ≠ .missing 0) ∧
    (v = .missing 0 → whenMissing v dflt = dflt) ∧
    (v ≠ .missing 0 → whenMissing v dflt = v) := by
  have key : isMissing v = true ↔ v = .missing 0 := by
    constructor
    · intro h; unfold isMissing at h; split at h <;> simp_all
    · intro h; subst h; rfl
  refine ⟨key, ?_, ?_, ?_⟩
  · unfold notMissing
    cases hb : isMissing v with
    | false =>
      simp only [Bool.not_false, true_iff]
      intro h; have := key.mpr h; simp [hb] at this
    | true => simp [key.mp hb]
  · intro h; subst h; rfl
  · intro h
    have : isMissing v = false := by
      cases hb : isMissing v with
      | false => rfl
      | true => exact absurd (key.mp hb) h
    simp [whenMissing, this]

/-- C20.falsy_eq: an instance of `Missing` is falsy; `MISSING == v` holds only for `v` being
`MISSING`; `v == MISSING` holds only for `MISSING` itself unless `v`'s own `__eq__` always answers
True (which `Missing` cannot influence); reading, setting and deleting an attribute are rejected,
also when `Missing.__setattr__` is bypassed (`object.__setattr__`, `vars`): there is no storage. -/
theorem falsy_eq (v : Val) (i : Nat) (name : String) (x : Val) :
    truthy (.missing i) = false ∧
    (eqMissingLeft v = true ↔ v = .missing 0) ∧
    ((∀ j, v ≠ .alwaysEq j) → allSingleton v = true → (eqMissingRight v = true ↔ v = .missing 0)) ∧
    getAttr (.missing i) name = some (.error .attributeError) ∧
    setAttr (.missing i) name x = some (.error .attributeError) ∧
    delAttr (.missing i) name = some (.error .attributeError) ∧
    rawSetAttr (.missing i) name x = some (.error .attributeError) ∧
    varsOf (.missing i) = some (.error .attributeError) := by
  refine ⟨rfl, (predicates v v).1, ?_, rfl, rfl, rfl, rfl, rfl⟩
  intro hq hs
  cases v <;> simp_all [eqMissingRight, isMissing, allSingleton]

/-- the full statement fails for the *pinned* class (no `__reduce__`): `copy` of the constant is a
second instance, which `is_missing` does not recognise (reproduced on the pinned tree). -/
theorem pinned_copy_new_instance :
    isMissing (copyPinned (.missing 0)) = false ∧ allSingleton (copyPinned (.missing 0)) = false := by
  decide

/-- C20.validator_agrees_with_identity: a State attribute annotated `Missing` accepts exactly the constant – not a
second instance, not a look-alike (`None`, `False`, empty containers, an object whose `__eq__` always answers True, an
object that reports `Missing` as its `__class__`); one annotated `str | Missing` accepts a `str` or the constant. -/
theorem validator_agrees_with_identity (v : Val) :
    (validMissing v = true ↔ v = .missing 0) ∧
    (validStrOrMissing v = true ↔ (v = .missing 0 ∨ ∃ s, v = .str s)) := by
  have key : isMissing v = true ↔ v = .missing 0 := by
    constructor
    · intro h; unfold isMissing at h; split at h <;> simp_all
    · intro h; subst h; rfl
  refine ⟨key, ?_⟩
  cases v <;> simp_all [validStrOrMissing]

/-! ## Non-vacuity -/

/-- a state holding MISSING directly, inside a list and inside a dict inside a tuple, depth 4 -/
example :
    let v : Val := .state 3 [("a", .list [.int 1, .missing 0]),
                             ("b", .tuple [.dict [(.str "k", .tuple [.missing 0])]]), ("c", .missing 0)]
    Obtained v ∧ deepcopy v = v ∧ pickle 2 v = .error .stateNotPicklable ∧
      pickle 5 (.list [v, .missing 0]) = .error .stateNotPicklable := by
  refine ⟨?_, by rfl, by rfl, by rfl⟩
  apply Obtained.state
  intro f hf
  simp only [List.mem_cons, List.not_mem_nil, or_false] at hf
  rcases hf with rfl | rfl | rfl
  · exact .list (by intro x hx; simp at hx; rcases hx with rfl | rfl <;> constructor)
  · refine .tuple ?_
    intro x hx; simp at hx; subst hx
    refine .dict ?_ ?_
    · intro kv hkv; simp at hkv; subst hkv; exact .str _
    · intro kv hkv; simp at hkv; subst hkv
      exact .tuple (by intro y hy; simp at hy; subst hy; exact .const)
  · exact .const

example : pickle 0 (.dict [(.str "k", .list [.missing 0, .none])])
    = .ok (.dict [(.str "k", .list [.missing 0, .none])]) := by rfl

/-- look-alikes are not missing -/
example : [Val.none, .bool false, .list [], .dict [], .alwaysEq 1, .pretender 1, .missing 7].map isMissing
    = [false, false, false, false, false, false, false] := by decide

/-- an object that merely claims `Missing` as its class is kept as it is by `when_missing` -/
example : whenMissing (.pretender 1) (.str "dflt") = .pretender 1 ∧ notMissing (.pretender 1) = true :=
  ⟨rfl, rfl⟩

example : eqMissingRight (.alwaysEq 1) = true ∧ eqMissingLeft (.alwaysEq 1) = false := by decide

end Haiway.C20
