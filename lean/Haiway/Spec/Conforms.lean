import Haiway.Model.Validate
/-! Independent specification side of C05/C04: structural conformance of a value to an annotation,
the documented immutable conversion as a relation, and the "frozen" predicate.  Nothing here refers
to `validate`. -/
namespace Haiway.Validate

/-- `Conforms env a v`: the value conforms to the annotation, read up to the documented conversion
(any non-string sequence for `Sequence`/`tuple`, any `Set` for `Set`/`frozenset`, any `Mapping`).
nominal = runtime `isinstance` on the class table; literal = equal **and of the same type**. -/
inductive Conforms (env : ClsEnv) : Ann → PyVal → Prop where
  | any (v) : Conforms env .any v
  | none : Conforms env .none .none
  | missing : Conforms env .missing .missing
  | callable {v} : isCallable v = true → Conforms env .callable v
  | nominal {c v} : isInst env c v = true → Conforms env (.nominal c) v
  | literal {ls v p} : primOf v = some p → p ∈ ls → Conforms env (.literal ls) v
  | seq {a v xs} : seqElems v = some xs → (∀ x ∈ xs, Conforms env a x) → Conforms env (.seq a) v
  | tupleVar {a v xs} : seqElems v = some xs → (∀ x ∈ xs, Conforms env a x) → Conforms env (.tupleVar a) v
  | set {a v xs} : setElems v = some xs → (∀ x ∈ xs, Conforms env a x) → Conforms env (.set a) v
  | map {k w v kvs} : mapElems v = some kvs → (∀ p ∈ kvs, Conforms env k p.1) → (∀ p ∈ kvs, Conforms env w p.2) →
      Conforms env (.map k w) v
  | tupleFixed {as v xs} : seqElems v = some xs → as.length = xs.length →
      (∀ p ∈ as.zip xs, Conforms env p.1 p.2) → Conforms env (.tupleFixed as) v
  | union {as v a} : a ∈ as → Conforms env a v → Conforms env (.union as) v

/-- `Stored env a v w`: `w` is the documented immutable conversion of the conforming value `v` at
annotation `a`: leaves are kept as they are (the same object); sequences become a tuple, sets a
frozenset, mappings a mappingproxy, with the same number of elements/pairs in the same order (`zip`), element
`i` being the conversion of element `i`; a union converts by its first conforming alternative. -/
inductive Stored (env : ClsEnv) : Ann → PyVal → PyVal → Prop where
  | any (v) : Stored env .any v v
  | none : Stored env .none .none .none
  | missing : Stored env .missing .missing .missing
  | callable (v) : Stored env .callable v v
  | nominal (c v) : Stored env (.nominal c) v v
  | literal (ls v) : Stored env (.literal ls) v v
  | seq {a v xs ys} : seqElems v = some xs → xs.length = ys.length →
      (∀ p ∈ xs.zip ys, Stored env a p.1 p.2) → Stored env (.seq a) v (.tuple ys)
  | tupleVar {a v xs ys} : seqElems v = some xs → xs.length = ys.length →
      (∀ p ∈ xs.zip ys, Stored env a p.1 p.2) → Stored env (.tupleVar a) v (.tuple ys)
  | set {a v xs ys} : setElems v = some xs → xs.length = ys.length →
      (∀ p ∈ xs.zip ys, Stored env a p.1 p.2) → Stored env (.set a) v (.fset ys)
  | map {k w v kvs kvs'} : mapElems v = some kvs → kvs.length = kvs'.length →
      (∀ p ∈ kvs.zip kvs', Stored env k p.1.1 p.2.1) → (∀ p ∈ kvs.zip kvs', Stored env w p.1.2 p.2.2) →
      Stored env (.map k w) v (.mproxy kvs')
  | tupleFixed {as v xs ys} : seqElems v = some xs → as.length = xs.length → xs.length = ys.length →
      (∀ t ∈ as.zip (xs.zip ys), Stored env t.1 t.2.1 t.2.2) → Stored env (.tupleFixed as) v (.tuple ys)
  | union {pre a post v w} : (∀ b ∈ pre, ¬ Conforms env b v) → Conforms env a v → Stored env a v w →
      Stored env (.union (pre ++ a :: post)) v w

/-- hashable values: what Python admits as set elements and mapping keys (within `PyVal`).
State instances and MISSING define `__eq__` without `__hash__` and are therefore not hashable. -/
inductive Hashable : PyVal → Prop where
  | none : Hashable .none
  | bool (b) : Hashable (.bool b)
  | int (i) : Hashable (.int i)
  | float (h) : Hashable (.float h)
  | str (s) : Hashable (.str s)
  | bytes (s) : Hashable (.bytes s)
  | tuple {xs} : (∀ x ∈ xs, Hashable x) → Hashable (.tuple xs)
  | fset {xs} : (∀ x ∈ xs, Hashable x) → Hashable (.fset xs)
  | enumv (c i m) : Hashable (.enumv c i m)
  | obj (c i) : Hashable (.obj c i)
  | callable (i) : Hashable (.callable i)

/-- `Frozen a w`: every container reached in `w` through Sequence / tuple / Set / Mapping
annotations is an immutable constructor.  Positions annotated `Any` (and nominal/Protocol
positions, which keep the caller's object) are *excluded*: nothing is claimed below them. -/
inductive Frozen : Ann → PyVal → Prop where
  | any (v) : Frozen .any v
  | none (v) : Frozen .none v
  | missing (v) : Frozen .missing v
  | callable (v) : Frozen .callable v
  | nominal (c v) : Frozen (.nominal c) v
  | literal (ls v) : Frozen (.literal ls) v
  | seq {a ys} : (∀ y ∈ ys, Frozen a y) → Frozen (.seq a) (.tuple ys)
  | tupleVar {a ys} : (∀ y ∈ ys, Frozen a y) → Frozen (.tupleVar a) (.tuple ys)
  | set {a ys} : (∀ y ∈ ys, Frozen a y) → Frozen (.set a) (.fset ys)
  | map {k w kvs} : (∀ p ∈ kvs, Frozen k p.1) → (∀ p ∈ kvs, Frozen w p.2) → Frozen (.map k w) (.mproxy kvs)
  | tupleFixed {as ys} : as.length = ys.length → (∀ p ∈ as.zip ys, Frozen p.1 p.2) → Frozen (.tupleFixed as) (.tuple ys)
  | union {as a w} : a ∈ as → Frozen a w → Frozen (.union as) w

end Haiway.Validate
