import Haiway.Model.Stream
/-! Specification side of C11: what the property says a consumer's probe and a generator body must observe,
computed from the labels alone by an environment stack – no context variables, no tokens, no generator frames.
Nothing here refers to `step`. -/
namespace Haiway.Stream.Spec
open Haiway.Stream

/-- a task as the property sees it: the context it inherited and the contexts visible inside its own open
blocks (innermost first) -/
structure STask where
  base : FP
  stack : List FP
deriving Repr

def STask.top (t : STask) : FP := t.stack.headD t.base

structure SSys where
  tasks : List (Nat × STask) := [(0, { base := { state := none, label := none, group := none }, stack := [] })]
  /-- stream handle ↦ (generator, state visible where `ctx.stream` was called) -/
  created : List (Nat × (Nat × Option Nat)) := []
deriving Repr

def specStep (gens : Gens) (sp : SSys) (idx : Nat) (l : Label) : SSys :=
  match lookup sp.tasks l.task with
  | none => sp
  | some tk =>
    let top := tk.top
    match l.op with
    | .enterA v =>
      { sp with tasks := update sp.tasks l.task { tk with stack :=
          { state := some (newState top.state v), label := some (.task idx), group := some (.task idx) } :: tk.stack } }
    | .enterS v =>
      { sp with tasks := update sp.tasks l.task { tk with stack :=
          { state := some (newState top.state v), label := some (.task idx), group := top.group } :: tk.stack } }
    | .enterU v =>
      { sp with tasks := update sp.tasks l.task { tk with stack :=
          { state := some (newState top.state v), label := top.label, group := top.group } :: tk.stack } }
    | .exit => { sp with tasks := update sp.tasks l.task { tk with stack := tk.stack.tail } }
    | .spawn j =>
      match lookup sp.tasks j with
      | some _ => sp
      | none => { sp with tasks := update sp.tasks j { base := top, stack := [] } }
    | .mk h g =>
      match lookup sp.created h, gens[g]? with
      | none, some _ => { sp with created := update sp.created h (g, top.state) }
      | _, _ => sp
    | _ => sp

def specFrom (gens : Gens) : SSys → Nat → List Label → SSys
  | sp, _, [] => sp
  | sp, idx, l :: ls => specFrom gens (specStep gens sp idx l) (idx + 1) ls

def specRun (gens : Gens) (ls : List Label) : SSys := specFrom gens {} 0 ls

/-- what a probe of task `t` must show after the labels `ls` -/
def expectedProbe (gens : Gens) (ls : List Label) (t : Nat) : Option FP :=
  (lookup (specRun gens ls).tasks t).map (·.top)

mutual
/-- the state a body must observe at each of its yields when it runs in a context whose state is `st` -/
def statesI : Instr → Option Nat → List (Option Nat)
  | .yld _, st => [st]
  | .recd _, _ => []
  | .fail _, _ => []
  | .nop, _ => []
  | .block _ v body, st => statesL body (some (newState st v))
  | .sub _ body, st => statesL body (some (newState st 0))
def statesL : List Instr → Option Nat → List (Option Nat)
  | [], _ => []
  | i :: r, st => statesI i st ++ statesL r st
end

/-- the states the body of stream `h` must observe, yield by yield: the state visible where the stream was
created (inside the stream's own scope, which supplies nothing), overlaid by the body's own blocks -/
def expectedBodyStates (gens : Gens) (ls : List Label) (h : Nat) : List (Option Nat) :=
  match lookup (specRun gens ls).created h with
  | none => []
  | some (g, st) => statesL (gens[g]?.getD []) (some (newState st 0))

end Haiway.Stream.Spec
