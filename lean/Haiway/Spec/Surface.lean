import Haiway.Model.Resolve
import Haiway.Spec.Conforms
/-! Independent reading of the surface annotation syntax: `den … e v` = "the value `v` conforms to the
annotation `e` as written in the class body".  Type variables in scope are bound to resolved
annotations (the class type arguments / alias arguments, as in the code's `type_parameters`), whose
meaning is `Conforms`.  Nothing here refers to `resolve` except for turning alias / generic *arguments*
into such bindings. -/
namespace Haiway.Resolve
open Haiway.Validate

/-- predicate `i` holds of element `i`, same length -/
def Pointwise (ps : List (PyVal → Prop)) (xs : List PyVal) : Prop :=
  ps.length = xs.length ∧ ∀ q ∈ ps.zip xs, q.1 q.2

mutual
def den (env : ClsEnv) (E : StaticEnv) (als : List AliasDef) (self : Option Nat) (tp : List (String × Ann)) :
    TyExpr → PyVal → Prop
  | .none, v => v = .none
  | .any, _ => True
  | .missing, v => v = .missing
  | .callable, v => isCallable v = true
  | .self, v => match self with
      | some c => isInst env c v = true
      | none => True                          -- documented: an unresolved `Self` is treated as `Any`
  | .cls c, v => isInst env c v = true
  | .literal ls, v => ∃ p, primOf v = some p ∧ p ∈ ls
  | .seq t, v => ∃ xs, seqElems v = some xs ∧ ∀ x ∈ xs, den env E als self tp t x
  | .tupleVar t, v => ∃ xs, seqElems v = some xs ∧ ∀ x ∈ xs, den env E als self tp t x
  | .set t, v => ∃ xs, setElems v = some xs ∧ ∀ x ∈ xs, den env E als self tp t x
  | .fset t, v => ∃ xs, setElems v = some xs ∧ ∀ x ∈ xs, den env E als self tp t x
  | .map k w, v => ∃ kvs, mapElems v = some kvs ∧
      (∀ p ∈ kvs, den env E als self tp k p.1) ∧ (∀ p ∈ kvs, den env E als self tp w p.2)
  | .tupleFixed ts, v => ∃ xs, seqElems v = some xs ∧ Pointwise (denList env E als self tp ts) xs
  | .union ts, v => ∃ P ∈ denList env E als self tp ts, P v
  | .optional t, v => den env E als self tp t v ∨ v = .none
  | .annotated t, v => den env E als self tp t v
  | .final t, v => den env E als self tp t v
  | .fwd n, v => ∃ c, E.names.lookup n = some c ∧ isInst env c v = true
  | .tvar n, v => match tp.lookup n with
      | some a => Conforms env a v
      | none => match E.bounds.lookup n with
        | some c => isInst env c v = true
        | none => True
  | .alias n args, v => match findAlias n als with
      | none => False
      | some (d, ⟨rest, _⟩) => match resolveList E als none tp args with
        | .error _ => False
        | .ok args' => den env E rest none (d.params.zip args' ++ tp) d.body v
  | .generic c args, v => match resolveList E als self tp args with
      | .error _ => False
      | .ok args' => ∃ c', lookupSpec E.specs c args' = some c' ∧ isInst env c' v = true
termination_by e => (als.length, sizeOf e)
def denList (env : ClsEnv) (E : StaticEnv) (als : List AliasDef) (self : Option Nat) (tp : List (String × Ann)) :
    List TyExpr → List (PyVal → Prop)
  | [] => []
  | t :: ts => den env E als self tp t :: denList env E als self tp ts
termination_by ts => (als.length, sizeOf ts)
end

end Haiway.Resolve
