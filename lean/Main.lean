import Driver
/-! `hwmodel <component>`: reads cases from stdin, one per line, writes one line per case. -/
def main (args : List String) : IO UInt32 := do
  match args with
  | ["queue"] => Driver.runLines Driver.Queue.runCase; return 0
  | _ => IO.eprintln "usage: hwmodel <component>"; return 2
