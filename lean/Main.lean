import Driver
/-! `hwmodel <component>`: reads cases from stdin, one per line, writes one line per case. -/
def main (args : List String) : IO UInt32 := do
  match args with
  | ["queue"] => Driver.runLines Driver.Queue.runCase; return 0
  | ["tasks"] => Driver.runLines Driver.Tasks.runCase; return 0
  | ["cache"] => Driver.runLines Driver.Cache.runCase; return 0
  | ["retry"] => Driver.runLines Driver.Retry.runCase; return 0
  | ["throttle"] => Driver.runLines Driver.Throttle.runCase; return 0
  | ["timeout"] => Driver.runLines Driver.Timeout.runCase; return 0
  | ["disposables"] => Driver.runLines Driver.Disposables.runCase; return 0
  | ["validate"] => Driver.runLines Driver.Validate.runCase; return 0
  | ["completion"] => Driver.runLines Driver.ScopeRun.completionCase; return 0
  | ["metrics"] => Driver.runLines Driver.ScopeRun.metricsCase; return 0
  | ["logs"] => Driver.runLines Driver.ScopeRun.logsCase; return 0
  | ["proc"] => Driver.runLines Driver.Proc.runCase; return 0
  | ["groups"] => Driver.runLines Driver.Groups.runCase; return 0
  | ["acache"] => Driver.runLines Driver.AsyncCache.runCase; return 0
  | ["stream"] => Driver.runLines Driver.Stream.runCase; return 0
  | ["stateobj"] => Driver.runLines Driver.StateObj.runCase; return 0
  | ["missing"] => Driver.runLines Driver.Missing.runCase; return 0
  | ["wrap"] => Driver.runLines Driver.Wrap.runCase; return 0
  | _ => IO.eprintln "usage: hwmodel <component>"; return 2
