/-! Spike: async cache – the *task* is cached and every caller awaits a shield of it (C13). -/
namespace Ac

def upd {α} (f : Nat → α) (i : Nat) (v : α) : Nat → α := fun j => if j = i then v else f j

inductive TaskSt where | running | done (ok : Bool) | cancelled
deriving DecidableEq, Repr

inductive CallerSt where
  | idle
  | waiting (t : Nat)          -- awaiting `shield(task t)`
  | got (t : Nat) (ok : Bool)  -- received task t's outcome
  | cancelled
deriving DecidableEq, Repr

structure Entry where
  key : Nat
  task : Nat
  expire : Option Nat
deriving DecidableEq, Repr

structure Sys where
  limit : Nat
  expiration : Option Nat
  now : Nat := 0
  table : List Entry := []            -- oldest first
  ntasks : Nat := 0
  tasks : Nat → TaskSt := fun _ => .running
  taskKey : Nat → Nat := fun _ => 0   -- ghost: which key an invocation was started for
  callers : Nat → CallerSt := fun _ => .idle

inductive Label where
  | call (c k : Nat)
  | finish (t : Nat) (ok : Bool)
  | cancel (c : Nat)
  | advance (d : Nat)
deriving Repr

def expired (e : Entry) (now : Nat) : Bool := match e.expire with | some x => x != 0 && x < now | none => false

def step (s : Sys) : Label → Option Sys
  | .call c k =>
    if s.callers c ≠ .idle then none else
    match s.table.find? (·.key = k) with
    | some e =>
      if expired e s.now then
        -- entry dropped, a fresh invocation starts; the old task keeps running for whoever awaits it
        let t := s.ntasks
        let tbl := (s.table.filter (·.key ≠ k)) ++ [{ key := k, task := t, expire := s.expiration.map (s.now + ·) }]
        some { s with table := if s.limit < tbl.length then tbl.tail else tbl, ntasks := t + 1,
                      taskKey := upd s.taskKey t k, callers := upd s.callers c (.waiting t) }
      else
        let waitOrGot : CallerSt := match s.tasks e.task with
          | .running => .waiting e.task
          | .done ok => .got e.task ok
          | .cancelled => .cancelled
        some { s with table := (s.table.filter (·.key ≠ k)) ++ [e], callers := upd s.callers c waitOrGot }
    | none =>
      let t := s.ntasks
      let tbl := s.table ++ [{ key := k, task := t, expire := s.expiration.map (s.now + ·) }]
      some { s with table := if s.limit < tbl.length then tbl.tail else tbl, ntasks := t + 1,
                    taskKey := upd s.taskKey t k, callers := upd s.callers c (.waiting t) }
  | .finish t ok =>
    if t < s.ntasks ∧ s.tasks t = .running then
      some { s with tasks := upd s.tasks t (.done ok),
                    callers := fun c => if s.callers c = .waiting t then .got t ok else s.callers c }
    else none
  | .cancel c =>
    match s.callers c with
    | .waiting _ => some { s with callers := upd s.callers c .cancelled }   -- only the shield's outer future is cancelled
    | _ => none
  | .advance d => some { s with now := s.now + d }

/-- C13.cancel_frame: cancelling a caller touches nothing but that caller -/
theorem cancel_frame (s s' : Sys) (c : Nat) (h : step s (.cancel c) = some s') :
    s'.tasks = s.tasks ∧ s'.table = s.table ∧ s'.ntasks = s.ntasks ∧ ∀ c', c' ≠ c → s'.callers c' = s.callers c' := by
  simp only [step] at h
  split at h
  · simp only [Option.some.injEq] at h; subst h
    exact ⟨rfl, rfl, rfl, fun c' hc => by simp [upd, hc]⟩
  · simp at h

/-- C13.evict_frame: calls (which may expire or evict entries) and clock advances never change a task's state -/
theorem tasks_only_finish (s s' : Sys) (l : Label) (h : step s l = some s')
    (hl : ∀ t ok, l ≠ .finish t ok) : s'.tasks = s.tasks := by
  cases l with
  | call c k =>
    simp only [step] at h
    split at h
    · simp at h
    · split at h
      · split at h <;> (simp only [Option.some.injEq] at h; subst h; rfl)
      · simp only [Option.some.injEq] at h; subst h; rfl
  | finish t ok => exact absurd rfl (hl t ok)
  | cancel c =>
    exact (cancel_frame s s' c h).1
  | advance d => simp only [step, Option.some.injEq] at h; subst h; rfl

/-- C13.delivery: when an invocation finishes, every caller waiting on it receives its outcome –
    whether or not its entry is still in the table – and nobody else is affected -/
theorem delivery (s s' : Sys) (t : Nat) (ok : Bool) (h : step s (.finish t ok) = some s') :
    (∀ c, s.callers c = .waiting t → s'.callers c = .got t ok) ∧
    (∀ c, s.callers c ≠ .waiting t → s'.callers c = s.callers c) ∧ s'.table = s.table := by
  simp only [step] at h
  split at h
  · simp only [Option.some.injEq] at h; subst h
    exact ⟨fun c hc => by simp [hc], fun c hc => by simp [hc], rfl⟩
  · simp at h

/-- invariant behind C13.single_flight: distinct live entries never share a key, and each entry's task was started for its key -/
def TableOk (s : Sys) : Prop :=
  (s.table.map (·.key)).Nodup ∧ ∀ e ∈ s.table, e.task < s.ntasks ∧ s.taskKey e.task = e.key

end Ac
#print axioms Ac.delivery
