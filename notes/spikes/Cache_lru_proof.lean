/-! Spike: LRU cache table (mirrors `_SyncCache.__call__`) with capacity and LRU-hit theorems (C12). -/
namespace LC

structure Entry where
  key : Nat
  val : Nat
  expire : Option Nat
deriving DecidableEq, Repr

structure Cfg where
  limit : Nat
  expiration : Option Nat

structure Call where
  now : Nat
  key : Nat
  fresh : Option Nat        -- what the wrapped function returns if invoked now (`none` = raises)

inductive Res where
  | hit (v : Nat) | computed (v : Nat) | raised
deriving DecidableEq, Repr

abbrev Table := List Entry   -- oldest first, as the OrderedDict

def find (t : Table) (k : Nat) : Option Entry := t.find? (·.key = k)
def erase (t : Table) (k : Nat) : Table := t.filter (·.key ≠ k)
def keys (t : Table) : List Nat := t.map (·.key)

def expired (e : Entry) (now : Nat) : Bool :=
  match e.expire with
  | some x => x != 0 && x < now      -- `if (expire := entry[1]) and expire < monotonic()`
  | none => false

def miss (cfg : Cfg) (t : Table) (c : Call) : Table × Res :=
  match c.fresh with
  | none => (t, .raised)
  | some v =>
    let t' := t ++ [{ key := c.key, val := v, expire := cfg.expiration.map (c.now + ·) }]
    (if cfg.limit < t'.length then t'.tail else t', .computed v)

def call (cfg : Cfg) (t : Table) (c : Call) : Table × Res :=
  match find t c.key with
  | none => miss cfg t c
  | some e =>
    if expired e c.now then miss cfg (erase t c.key) c
    else (erase t c.key ++ [e], .hit e.val)

def run (cfg : Cfg) : Table → List Call → Table × List Res
  | t, [] => (t, [])
  | t, c :: cs =>
    let r := call cfg t c
    let rest := run cfg r.1 cs
    (rest.1, r.2 :: rest.2)

structure Wf (cfg : Cfg) (t : Table) : Prop where
  nodup : (keys t).Nodup
  cap : t.length ≤ cfg.limit


theorem keys_erase (t : Table) (k : Nat) : keys (erase t k) = (keys t).filter (· ≠ k) := by
  simp [erase, keys, List.filter_map, Function.comp_def]

theorem nodup_erase (t : Table) (k : Nat) (h : (keys t).Nodup) : (keys (erase t k)).Nodup := by
  rw [keys_erase]; exact h.filter _

theorem not_mem_erase (t : Table) (k : Nat) : k ∉ keys (erase t k) := by
  rw [keys_erase]; simp

theorem length_erase_le (t : Table) (k : Nat) : (erase t k).length ≤ t.length := List.length_filter_le _ _

theorem find_none_iff (t : Table) (k : Nat) : find t k = none ↔ k ∉ keys t := by
  simp [find, keys, List.find?_eq_none]

theorem find_some (t : Table) (k : Nat) (e : Entry) (h : find t k = some e) : e ∈ t ∧ e.key = k := by
  unfold find at h
  exact ⟨List.mem_of_find?_eq_some h, by simpa using List.find?_some h⟩

theorem length_erase_lt (t : Table) (k : Nat) (e : Entry) (h : find t k = some e) :
    (erase t k).length < t.length := by
  obtain ⟨hm, hk⟩ := find_some t k e h
  unfold erase
  exact List.length_filter_lt_length_iff_exists.mpr ⟨e, hm, by simp [hk]⟩

theorem miss_wf (cfg : Cfg) (hl : 0 < cfg.limit) (t : Table) (c : Call)
    (hn : (keys t).Nodup) (hk : c.key ∉ keys t) (hc : t.length ≤ cfg.limit) :
    Wf cfg (miss cfg t c).1 := by
  unfold miss
  cases c.fresh with
  | none => exact ⟨hn, hc⟩
  | some v =>
    simp only
    have hnd : (keys (t ++ [{ key := c.key, val := v, expire := cfg.expiration.map (c.now + ·) }])).Nodup := by
      simp only [keys, List.map_append, List.map_cons, List.map_nil]
      rw [List.nodup_append]
      exact ⟨hn, by simp, by intro a ha b hb; simp at hb; subst hb; intro hab; subst hab; exact hk ha⟩
    split
    · constructor
      · have := hnd
        simp only [keys] at this ⊢
        rw [List.map_tail]; exact this.sublist (List.tail_sublist _)
      · simp [List.length_tail]; omega
    · exact ⟨hnd, by simp at *; omega⟩

theorem call_wf (cfg : Cfg) (hl : 0 < cfg.limit) (t : Table) (c : Call) (h : Wf cfg t) :
    Wf cfg (call cfg t c).1 := by
  unfold call
  cases hf : find t c.key with
  | none => exact miss_wf cfg hl t c h.nodup ((find_none_iff _ _).mp hf) h.cap
  | some e =>
    simp only
    have hlt := length_erase_lt t c.key e hf
    split
    · exact miss_wf cfg hl _ c (nodup_erase _ _ h.nodup) (not_mem_erase _ _) (by have := h.cap; omega)
    · obtain ⟨hm, hk⟩ := find_some t c.key e hf
      constructor
      · simp only [keys, List.map_append, List.map_cons, List.map_nil]
        rw [List.nodup_append]
        refine ⟨nodup_erase _ _ h.nodup, by simp, ?_⟩
        intro a ha b hb; simp at hb; subst hb; intro hab; subst hab
        exact not_mem_erase t c.key (hk ▸ ha)
      · simp; have := h.cap; omega

/-- C12.capacity -/
theorem capacity (cfg : Cfg) (hl : 0 < cfg.limit) (cs : List Call) (t : Table) (h : Wf cfg t) :
    Wf cfg (run cfg t cs).1 := by
  induction cs generalizing t with
  | nil => simpa [run] using h
  | cons c cs ih => simpa [run] using ih _ (call_wf cfg hl t c h)


/-- `e` is in the table and every entry after it has its key in `S` -/
def Pos (t : Table) (e : Entry) (S : List Nat) : Prop :=
  ∃ pre post, t = pre ++ e :: post ∧ ∀ x ∈ post, x.key ∈ S

theorem pos_erase (t : Table) (e : Entry) (S : List Nat) (k : Nat) (h : Pos t e S) (hk : e.key ≠ k) :
    Pos (erase t k) e S := by
  obtain ⟨pre, post, rfl, hp⟩ := h
  refine ⟨erase pre k, erase post k, ?_, ?_⟩
  · simp [erase, List.filter_append, List.filter_cons, hk]
  · intro x hx; exact hp x (List.mem_filter.mp hx).1

theorem pos_append (t : Table) (e x : Entry) (S : List Nat) (h : Pos t e S) (hx : x.key ∈ S) :
    Pos (t ++ [x]) e S := by
  obtain ⟨pre, post, rfl, hp⟩ := h
  refine ⟨pre, post ++ [x], by simp, ?_⟩
  intro y hy
  rcases List.mem_append.mp hy with hy | hy
  · exact hp y hy
  · simp at hy; subst hy; exact hx

theorem nodup_subset_length : ∀ (l S : List Nat), l.Nodup → (∀ x ∈ l, x ∈ S) → l.length ≤ S.length
  | [], _, _, _ => by simp
  | x :: l, S, hn, hs => by
    have hx : x ∈ S := hs x (by simp)
    have hn' := List.nodup_cons.mp hn
    have : l.length ≤ (S.erase x).length := by
      apply nodup_subset_length l (S.erase x) hn'.2
      intro y hy
      have hyx : y ≠ x := by intro h; subst h; exact hn'.1 hy
      exact (List.mem_erase_of_ne hyx).mpr (hs y (by simp [hy]))
    rw [List.length_erase_of_mem hx] at this
    have : 0 < S.length := List.length_pos_of_mem hx
    simp; omega

/-- popping the oldest entry cannot remove `e` while fewer than `limit` distinct keys are behind it -/
theorem pos_evict (cfg : Cfg) (t : Table) (e : Entry) (S : List Nat) (h : Pos t e S)
    (hn : (keys t).Nodup) (hS : S.length < cfg.limit) (hlen : cfg.limit < t.length) :
    Pos t.tail e S := by
  obtain ⟨pre, post, rfl, hp⟩ := h
  cases pre with
  | cons p pre' => exact ⟨pre', post, by simp, hp⟩
  | nil =>
    exfalso
    simp only [List.nil_append, keys, List.map_cons, List.nodup_cons] at hn
    have := nodup_subset_length (post.map (·.key)) S hn.2 (by
      intro x hx; obtain ⟨y, hy, rfl⟩ := List.mem_map.mp hx; exact hp y hy)
    simp at hlen this; omega

theorem pos_miss (cfg : Cfg) (t : Table) (c : Call) (e : Entry) (S : List Nat)
    (h : Pos t e S) (hn : (keys t).Nodup) (hk : c.key ∉ keys t) (hcS : c.key ∈ S)
    (hS : S.length < cfg.limit) : Pos (miss cfg t c).1 e S := by
  unfold miss
  cases c.fresh with
  | none => exact h
  | some v =>
    simp only
    have hp := pos_append t e { key := c.key, val := v, expire := cfg.expiration.map (c.now + ·) } S h hcS
    split
    · rename_i hlen
      refine pos_evict cfg _ e S hp ?_ hS hlen
      simp only [keys, List.map_append, List.map_cons, List.map_nil]
      rw [List.nodup_append]
      exact ⟨hn, by simp, by intro a ha b hb; simp at hb; subst hb; intro hab; subst hab; exact hk ha⟩
    · exact hp

/-- a call on another key leaves `e` in place and only adds that key behind it -/
theorem pos_call_other (cfg : Cfg) (t : Table) (c : Call) (e : Entry) (S : List Nat)
    (hwf : Wf cfg t) (h : Pos t e S) (hne : e.key ≠ c.key) (hcS : c.key ∈ S)
    (hS : S.length < cfg.limit) : Pos (call cfg t c).1 e S := by
  unfold call
  cases hf : find t c.key with
  | none => exact pos_miss cfg t c e S h hwf.nodup ((find_none_iff _ _).mp hf) hcS hS
  | some e' =>
    simp only
    obtain ⟨hm, hk'⟩ := find_some t c.key e' hf
    split
    · exact pos_miss cfg _ c e S (pos_erase t e S c.key h hne) (nodup_erase _ _ hwf.nodup)
        (not_mem_erase _ _) hcS hS
    · exact pos_append _ e e' S (pos_erase t e S c.key h hne) (hk' ▸ hcS)

theorem pos_run_others (cfg : Cfg) (hl : 0 < cfg.limit) (mid : List Call) (t : Table) (e : Entry) (S : List Nat)
    (hwf : Wf cfg t) (h : Pos t e S) (hmid : ∀ m ∈ mid, m.key ≠ e.key ∧ m.key ∈ S)
    (hS : S.length < cfg.limit) :
    Pos (run cfg t mid).1 e S ∧ Wf cfg (run cfg t mid).1 := by
  induction mid generalizing t with
  | nil => simpa [run] using ⟨h, hwf⟩
  | cons m mid ih =>
    have hm := hmid m (by simp)
    have h1 := pos_call_other cfg t m e S hwf h (Ne.symm hm.1) hm.2 hS
    have h2 := call_wf cfg hl t m hwf
    simpa [run] using ih _ h2 h1 (fun x hx => hmid x (by simp [hx]))

/-- with unique keys, the positioned entry is the one `find` returns -/
theorem find_of_pos (t : Table) (e : Entry) (S : List Nat) (h : Pos t e S) (hn : (keys t).Nodup) :
    find t e.key = some e := by
  obtain ⟨pre, post, rfl, _⟩ := h
  unfold find
  rw [List.find?_append]
  have : pre.find? (·.key = e.key) = none := by
    rw [List.find?_eq_none]; intro x hx hxe
    simp only [keys, List.map_append, List.map_cons] at hn
    rw [List.nodup_append] at hn
    have hxe' : x.key = e.key := by simpa using hxe
    exact hn.2.2 x.key (List.mem_map_of_mem hx) e.key (by simp) hxe'
  simp [this]

/-- after a call that returned normally, its key's entry is the newest one -/
theorem pos_after_call (cfg : Cfg) (hl : 0 < cfg.limit) (t : Table) (c : Call) (hwf : Wf cfg t)
    (hr : (call cfg t c).2 ≠ .raised) (S : List Nat) :
    ∃ e, e.key = c.key ∧ Pos (call cfg t c).1 e S ∧
      (∀ v, (call cfg t c).2 = .computed v → e.expire = cfg.expiration.map (c.now + ·)) := by
  unfold call at *
  cases hf : find t c.key with
  | none =>
    simp only [hf] at hr ⊢
    unfold miss at *
    cases hfr : c.fresh with
    | none => simp [hfr] at hr
    | some v =>
      simp only [hfr]
      refine ⟨{ key := c.key, val := v, expire := cfg.expiration.map (c.now + ·) }, rfl, ?_, by intro _ _; rfl⟩
      split
      · rename_i hlen
        cases t with
        | nil => simp at hlen; omega
        | cons x xs => exact ⟨xs, [], by simp, by simp⟩
      · exact ⟨t, [], by simp, by simp⟩
  | some e' =>
    simp only [hf] at hr ⊢
    obtain ⟨hm, hk'⟩ := find_some t c.key e' hf
    by_cases hex : expired e' c.now
    · simp only [hex, ↓reduceIte] at hr ⊢
      unfold miss at *
      cases hfr : c.fresh with
      | none => simp [hfr] at hr
      | some v =>
        simp only [hfr]
        refine ⟨{ key := c.key, val := v, expire := cfg.expiration.map (c.now + ·) }, rfl, ?_, by intro _ _; rfl⟩
        split
        · rename_i hlen
          cases hte : erase t c.key with
          | nil => simp [hte] at hlen; omega
          | cons x xs => exact ⟨xs, [], by simp, by simp⟩
        · exact ⟨erase t c.key, [], by simp, by simp⟩
    · simp only [hex, Bool.false_eq_true, ↓reduceIte] at hr ⊢
      exact ⟨e', hk', ⟨erase t c.key, [], by simp, by simp⟩, by intro v hv; simp at hv⟩

/-- C12.lru_hit: a key whose last call returned normally, whose entry is unexpired, and after which
fewer than `limit` distinct other keys were called, is answered from the cache. -/
theorem lru_hit (cfg : Cfg) (hl : 0 < cfg.limit) (t : Table) (hwf : Wf cfg t)
    (c0 : Call) (mid : List Call) (c1 : Call) (S : List Nat)
    (hr : (call cfg t c0).2 ≠ .raised) (hk : c1.key = c0.key)
    (hmid : ∀ m ∈ mid, m.key ≠ c0.key ∧ m.key ∈ S) (hS : S.length < cfg.limit)
    (hfresh : ∀ e, find (call cfg t c0).1 c0.key = some e → expired e c1.now = false) :
    ∃ v, (call cfg (run cfg (call cfg t c0).1 mid).1 c1).2 = .hit v := by
  obtain ⟨e, hek, hpos, _⟩ := pos_after_call cfg hl t c0 hwf hr S
  have hwf0 := call_wf cfg hl t c0 hwf
  have hfe : find (call cfg t c0).1 c0.key = some e := hek ▸ find_of_pos _ e S hpos hwf0.nodup
  have hne := hfresh e hfe
  obtain ⟨hpos', hwf'⟩ := pos_run_others cfg hl mid _ e S hwf0 hpos (by simpa [hek] using hmid) hS
  have hfind : find (run cfg (call cfg t c0).1 mid).1 c1.key = some e := by
    rw [hk, ← hek]; exact find_of_pos _ e S hpos' hwf'.nodup
  refine ⟨e.val, ?_⟩
  generalize (run cfg (call cfg t c0).1 mid).1 = T at hfind ⊢
  unfold call
  rw [hfind]
  simp only [hne, Bool.false_eq_true, ↓reduceIte]

end LC
#print axioms LC.capacity
#print axioms LC.lru_hit
