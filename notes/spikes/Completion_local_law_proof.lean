/-! Spike: scope-completion protocol (`ScopeMetrics._finish/_complete_if_able`, repaired adoption rule)
    and the local invariant behind C09. -/
namespace Cp

def upd {α} (f : Nat → α) (i : Nat) (v : α) : Nat → α := fun j => if j = i then v else f j

structure Sys where
  size : Nat := 0
  parent : Nat → Option Nat := fun _ => none
  finished : Nat → Bool := fun _ => false
  completed : Nat → Bool := fun _ => false
  nested : Nat → List Nat := fun _ => []
  fired : List Nat := []
  err : Bool := false          -- an assertion of the real code would have failed

/-- `ScopeMetrics.__init__`: registration under the current scope unless that one already completed -/
def create (s : Sys) (p : Option Nat) : Sys :=
  let id := s.size
  match p with
  | some q =>
    if s.completed q then { s with size := id + 1 }
    else { s with size := id + 1, parent := upd s.parent id (some q), nested := upd s.nested q (s.nested q ++ [id]) }
  | none => { s with size := id + 1 }

def able (s : Sys) (n : Nat) : Bool := s.finished n && (s.nested n).all s.completed

/-- `_complete_if_able`, walking up the parent chain -/
def completeUp (s : Sys) (n : Nat) : Nat → Sys
  | 0 => s
  | fuel + 1 =>
    if s.completed n then { s with err := true }           -- "called complete on already completed scope"
    else if able s n then
      let s' := { s with completed := upd s.completed n true, fired := s.fired ++ [n] }
      match s.parent n with
      | some p => completeUp s' p fuel
      | none => s'
    else s

/-- `_finish` -/
def finish (s : Sys) (n : Nat) : Sys :=
  if s.completed n || s.finished n then { s with err := true }
  else completeUp { s with finished := upd s.finished n true } n (n + 1)

structure Shape (s : Sys) : Prop where
  parent_lt : ∀ c p, s.parent c = some p → p < c ∧ c < s.size
  parent_nested : ∀ c p, s.parent c = some p → c ∈ s.nested p
  nested_parent : ∀ p c, c ∈ s.nested p → s.parent c = some p
  fresh : ∀ n, s.size ≤ n → s.finished n = false ∧ s.completed n = false ∧ s.nested n = [] ∧ s.parent n = none

/-- the local completion law at node `n` -/
def Law (s : Sys) (n : Nat) : Prop := s.completed n = able s n

structure Inv (s : Sys) : Prop where
  shape : Shape s
  law : ∀ n, Law s n
  noerr : s.err = false

theorem inv_init : Inv {} := by
  refine ⟨⟨by simp, by simp, by simp, by simp⟩, by intro n; simp [Law, able], rfl⟩

theorem all_upd_of_not_mem (f : Nat → Bool) (l : List Nat) (i : Nat) (v : Bool) (h : i ∉ l) :
    l.all (upd f i v) = l.all f := by
  induction l with
  | nil => rfl
  | cons x xs ih =>
    simp only [List.mem_cons, not_or] at h
    simp only [List.all_cons, ih h.2, upd]
    have : x ≠ i := fun hx => h.1 hx.symm
    simp [this]

theorem create_inv (s : Sys) (p : Option Nat) (h : Inv s) (hp : ∀ q, p = some q → q < s.size) :
    Inv (create s p) := by
  obtain ⟨⟨h1, h2, h3, h4⟩, hl, he⟩ := h
  unfold create
  cases p with
  | none =>
    refine ⟨⟨?_, h2, h3, ?_⟩, hl, he⟩
    · intro c p hc; have := h1 c p hc; exact ⟨this.1, by simp; omega⟩
    · intro n hn; exact h4 n (by simp at hn; omega)
  | some q =>
    have hq := hp q rfl
    by_cases hc : s.completed q
    · simp only [hc, ↓reduceIte]
      refine ⟨⟨?_, h2, h3, ?_⟩, hl, he⟩
      · intro c p hc'; have := h1 c p hc'; exact ⟨this.1, by simp; omega⟩
      · intro n hn; exact h4 n (by simp at hn; omega)
    · simp only [hc, Bool.false_eq_true, ↓reduceIte]
      have hfresh := h4 s.size (Nat.le_refl _)
      refine ⟨⟨?_, ?_, ?_, ?_⟩, ?_, he⟩
      · intro c p hcp
        simp only [upd] at hcp
        by_cases hcs : c = s.size
        · simp [hcs] at hcp; subst hcp; exact ⟨by omega, by simp [hcs]⟩
        · simp [hcs] at hcp; have := h1 c p hcp; exact ⟨this.1, by simp; omega⟩
      · intro c p hcp
        simp only [upd] at hcp ⊢
        by_cases hcs : c = s.size
        · simp [hcs] at hcp; subst hcp; simp [hcs]
        · simp [hcs] at hcp
          have := h2 c p hcp
          by_cases hpq : p = q
          · simp [hpq]; left; exact hpq ▸ this
          · simp [hpq, this]
      · intro p c hc'
        simp only [upd] at hc' ⊢
        by_cases hpq : p = q
        · simp [hpq] at hc'
          rcases hc' with hc' | hc'
          · have := h3 q c hc'
            have hlt := (h1 c q this).2
            have : c ≠ s.size := by omega
            simp [this, hpq]; exact h3 q c hc'
          · simp [hc', hpq]
        · simp [hpq] at hc'
          have := h3 p c hc'
          have hlt := (h1 c p this).2
          have : c ≠ s.size := by omega
          simp [this]; exact h3 p c hc'
      · intro n hn
        simp at hn
        have := h4 n (by omega)
        have hns : n ≠ s.size := by omega
        have hnq : n ≠ q := by omega
        simp [upd, hns, hnq, this]
      · intro n
        simp only [Law, able, upd]
        by_cases hnq : n = q
        · subst hnq
          simp [hfresh.2.1]
          have := hl n; simp [Law, able] at this
          simp [Bool.eq_false_iff.mpr hc] at this ⊢
        · simp [hnq]; exact hl n


/-- the law holds everywhere except possibly at `k`, which is not completed yet -/
structure InvExcept (s : Sys) (k : Nat) : Prop where
  shape : Shape s
  law : ∀ n, n ≠ k → Law s n
  open_k : s.completed k = false
  noerr : s.err = false

theorem not_mem_nested_self (s : Sys) (h : Shape s) (k : Nat) : k ∉ s.nested k := by
  intro hk
  have := h.parent_lt k k (h.nested_parent k k hk)
  omega

theorem completeUp_inv : ∀ (fuel : Nat) (s : Sys) (k : Nat), InvExcept s k → k < fuel →
    Inv (completeUp s k fuel)
  | 0, _, _, _, hk => by omega
  | fuel + 1, s, k, h, hk => by
    obtain ⟨hs, hl, ho, he⟩ := h
    unfold completeUp
    simp only [ho, Bool.false_eq_true, ↓reduceIte]
    by_cases ha : able s k
    · simp only [ha, ↓reduceIte]
      -- the state after marking `k` completed
      have hshape' : Shape { s with completed := upd s.completed k true, fired := s.fired ++ [k] } :=
        ⟨hs.parent_lt, hs.parent_nested, hs.nested_parent, by
          intro n hn
          have := hs.fresh n hn
          refine ⟨this.1, ?_, this.2.2⟩
          simp only [upd]
          by_cases hnk : n = k
          · subst hnk
            -- k ≥ size is impossible for a finished node
            have hf : s.finished n = true := by simp [able] at ha; exact ha.1
            simp [this.1] at hf
          · simp [hnk, this.2.1]⟩
      have hlaw_k : Law { s with completed := upd s.completed k true, fired := s.fired ++ [k] } k := by
        simp only [Law, able, upd]
        rw [all_upd_of_not_mem s.completed (s.nested k) k true (not_mem_nested_self s hs k)]
        simpa [able] using ha
      have hlaw_other : ∀ n, n ≠ k → s.parent k ≠ some n →
          Law { s with completed := upd s.completed k true, fired := s.fired ++ [k] } n := by
        intro n hnk hnp
        have hk_not : k ∉ s.nested n := fun hm => hnp (hs.nested_parent n k hm)
        simp only [Law, able, upd, hnk, ↓reduceIte]
        rw [all_upd_of_not_mem s.completed (s.nested n) k true hk_not]
        exact hl n hnk
      cases hp : s.parent k with
      | none =>
        simp only
        refine ⟨hshape', ?_, he⟩
        intro n
        by_cases hnk : n = k
        · subst hnk; exact hlaw_k
        · exact hlaw_other n hnk (by simp [hp])
      | some p =>
        simp only
        have hpk := hs.parent_lt k p hp
        apply completeUp_inv fuel _ p _ (by omega)
        refine ⟨hshape', ?_, ?_, he⟩
        · intro n hnp
          by_cases hnk : n = k
          · subst hnk; exact hlaw_k
          · exact hlaw_other n hnk (by rw [hp]; intro h; exact hnp (Option.some.inj h).symm)
        · -- the parent cannot be completed yet: its child `k` was not
          have hpne : p ≠ k := by omega
          have hlp := hl p hpne
          have hkin : k ∈ s.nested p := hs.parent_nested k p hp
          simp only [upd, hpne, ↓reduceIte]
          simp only [Law, able] at hlp
          rw [hlp]
          have : (s.nested p).all s.completed = false := by
            rw [List.all_eq_false]; exact ⟨k, hkin, by simp [ho]⟩
          simp [this]
    · simp only [ha, Bool.false_eq_true, ↓reduceIte]
      refine ⟨hs, ?_, he⟩
      intro n
      by_cases hnk : n = k
      · subst hnk; simp [Law, ho]; simpa using ha
      · exact hl n hnk

/-- leaving a scope that is entered and not yet left keeps the invariant; no assertion can fire -/
theorem finish_inv (s : Sys) (n : Nat) (h : Inv s) (hn : n < s.size) (hopen : s.finished n = false) :
    Inv (finish s n) := by
  obtain ⟨hs, hl, he⟩ := h
  have hc : s.completed n = false := by
    have := hl n; simp [Law, able, hopen] at this; exact this
  unfold finish
  simp only [hc, hopen, Bool.or_self, Bool.false_eq_true, ↓reduceIte]
  apply completeUp_inv (n + 1) _ n _ (by omega)
  refine ⟨⟨hs.parent_lt, hs.parent_nested, hs.nested_parent, ?_⟩, ?_, hc, he⟩
  · intro m hm
    have := hs.fresh m hm
    have hmn : m ≠ n := by simp at hm; omega
    exact ⟨by simp [upd, hmn, this.1], this.2⟩
  · intro m hmn
    simp only [Law, able, upd, hmn, ↓reduceIte]
    exact hl m

/-- C09 core: in every reachable state a scope is completed exactly when it is finished and all the
    scopes registered under it are completed; and no bookkeeping assertion has failed. -/
theorem completed_iff (s : Sys) (h : Inv s) (n : Nat) :
    s.completed n = true ↔ s.finished n = true ∧ ∀ c ∈ s.nested n, s.completed c = true := by
  have := h.law n
  simp only [Law, able] at this
  rw [this]; simp

end Cp
#print axioms Cp.finish_inv
#print axioms Cp.create_inv
