/-! Spike: `Disposables.__aenter__/__aexit__` inside `ScopeContext` (repaired) – balance of enter/exit for
    every outcome assignment (C08). Completion order of the concurrent enters/exits does not matter for the counts,
    so events are listed by disposable index. -/
namespace Dp

inductive EnterOut where | entered | failed | interrupted   -- interrupted = cancelled before it finished entering
deriving DecidableEq, Repr

structure Disp where
  enter : EnterOut
  exitRaises : Bool
deriving DecidableEq, Repr

inductive Ev where
  | enterCall (d : Nat) | exitCall (d : Nat) (withExc : Bool) | body
deriving DecidableEq, Repr

/-- `gather` starts every `__aenter__` exactly once -/
def enterEvs : Nat → List Disp → List Ev
  | _, [] => []
  | i, _ :: ds => .enterCall i :: enterEvs (i + 1) ds

/-- `__aexit__` is called on what was successfully entered (all of them on the normal path, the recorded
    ones on rollback) -/
def exitEvs (exc : Bool) : Nat → List Disp → List Ev
  | _, [] => []
  | i, d :: ds => (if d.enter = .entered then [Ev.exitCall i exc] else []) ++ exitEvs exc (i + 1) ds

def allEntered (ds : List Disp) : Bool := ds.all (·.enter = .entered)

/-- `async with ctx.scope(disposables=ds): body` – events, and whether the caller sees an exception -/
def run (ds : List Disp) (bodyRaises : Bool) : List Ev × Bool :=
  if allEntered ds then
    (enterEvs 0 ds ++ [.body] ++ exitEvs bodyRaises 0 ds, bodyRaises || ds.any (·.exitRaises))
  else
    (enterEvs 0 ds ++ exitEvs true 0 ds, true)          -- rollback with the failure; the body never runs

def isEnter (d : Nat) : Ev → Bool | .enterCall i => i == d | _ => false
def isExit (d : Nat) : Ev → Bool | .exitCall i _ => i == d | _ => false
def isBody : Ev → Bool | .body => true | _ => false

def count (evs : List Ev) (p : Ev → Bool) : Nat := (evs.filter p).length

@[simp] theorem count_nil (p : Ev → Bool) : count [] p = 0 := rfl
@[simp] theorem count_append (a b : List Ev) (p : Ev → Bool) : count (a ++ b) p = count a p + count b p := by
  simp [count, List.filter_append]
@[simp] theorem count_cons (e : Ev) (a : List Ev) (p : Ev → Bool) :
    count (e :: a) p = (if p e then 1 else 0) + count a p := by
  simp only [count, List.filter_cons]; split <;> simp <;> omega

theorem enterEvs_count (ds : List Disp) (i d : Nat) :
    count (enterEvs i ds) (isEnter d) = if i ≤ d ∧ d < i + ds.length then 1 else 0 := by
  induction ds generalizing i with
  | nil => simp [enterEvs]
  | cons x xs ih =>
    simp only [enterEvs, count_cons, ih, isEnter, List.length_cons]
    by_cases h : i = d
    · subst h; simp; omega
    · have : (i == d) = false := by simp [h]
      simp only [this, Bool.false_eq_true, ↓reduceIte, Nat.zero_add]
      split <;> split <;> first | rfl | omega

theorem enterEvs_no_exit (ds : List Disp) (i d : Nat) : count (enterEvs i ds) (isExit d) = 0 := by
  induction ds generalizing i with
  | nil => simp [enterEvs]
  | cons x xs ih => simp [enterEvs, ih, isExit]

theorem exitEvs_no_enter (exc : Bool) (ds : List Disp) (i d : Nat) : count (exitEvs exc i ds) (isEnter d) = 0 := by
  induction ds generalizing i with
  | nil => simp [exitEvs]
  | cons x xs ih => simp only [exitEvs, count_append, ih]; split <;> simp [isEnter]

theorem exitEvs_count (exc : Bool) (ds : List Disp) (i d : Nat) :
    count (exitEvs exc i ds) (isExit d) =
      if i ≤ d ∧ d < i + ds.length ∧ (ds[d - i]?).map (·.enter) = some .entered then 1 else 0 := by
  induction ds generalizing i with
  | nil => simp [exitEvs]
  | cons x xs ih =>
    simp only [exitEvs, count_append, ih, List.length_cons]
    by_cases h : i = d
    · subst h
      by_cases hx : x.enter = .entered
      · simp [hx, isExit]; omega
      · simp [hx]; omega
    · have hne : (i == d) = false := by simp [h]
      have h0 : count (if x.enter = .entered then [Ev.exitCall i exc] else []) (isExit d) = 0 := by
        split <;> simp [isExit, hne]
      rw [h0, Nat.zero_add]
      by_cases hlt : i < d
      · have hidx : d - i = (d - (i + 1)) + 1 := by omega
        simp only [hidx, List.getElem?_cons_succ]
        by_cases hP : (xs[d - (i + 1)]?).map (·.enter) = some EnterOut.entered
        · simp only [hP, and_true]; split <;> split <;> first | rfl | omega
        · simp [hP]
      · have : ¬ (i ≤ d) := by omega
        have : ¬ (i + 1 ≤ d) := by omega
        simp [*]

theorem enterEvs_no_body (ds : List Disp) (i : Nat) : count (enterEvs i ds) isBody = 0 := by
  induction ds generalizing i with
  | nil => simp [enterEvs]
  | cons x xs ih => simp [enterEvs, ih, isBody]

theorem exitEvs_no_body (exc : Bool) (ds : List Disp) (i : Nat) : count (exitEvs exc i ds) isBody = 0 := by
  induction ds generalizing i with
  | nil => simp [exitEvs]
  | cons x xs ih => simp only [exitEvs, count_append, ih]; split <;> simp [isBody]

/-- C08.balanced: every disposable is entered exactly once; exited exactly once iff its enter succeeded
    (normal path and rollback alike); the body runs iff all of them entered -/
theorem balanced (ds : List Disp) (bodyRaises : Bool) (d : Nat) (hd : d < ds.length) :
    count (run ds bodyRaises).1 (isEnter d) = 1 ∧
    count (run ds bodyRaises).1 (isExit d) = (if (ds[d]?).map (·.enter) = some .entered then 1 else 0) ∧
    count (run ds bodyRaises).1 isBody = (if allEntered ds then 1 else 0) := by
  unfold run
  by_cases h : allEntered ds
  · simp only [h, ↓reduceIte, count_append, count_cons, count_nil, enterEvs_count, exitEvs_no_enter,
      enterEvs_no_exit, exitEvs_count, enterEvs_no_body, exitEvs_no_body, isEnter, isExit, isBody]
    refine ⟨by simp [hd], ?_, by simp⟩
    simp [hd]
  · simp only [h, Bool.false_eq_true, ↓reduceIte, count_append, enterEvs_count, exitEvs_no_enter,
      enterEvs_no_exit, exitEvs_count, enterEvs_no_body, exitEvs_no_body]
    refine ⟨by simp [hd], ?_, by simp⟩
    simp [hd]

/-- C08.errors_surface: a failing `__aexit__` (or a failed enter) is never silent -/
theorem errors_surface (ds : List Disp) (bodyRaises : Bool)
    (h : ds.any (·.exitRaises) = true ∨ allEntered ds = false) : (run ds bodyRaises).2 = true := by
  unfold run
  by_cases ha : allEntered ds
  · rcases h with h | h
    · simp [ha, h]
    · simp [ha] at h
  · simp [ha]

end Dp
#print axioms Dp.balanced
#print axioms Dp.errors_surface
