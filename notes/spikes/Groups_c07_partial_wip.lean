import Hw.Groups
/-! Spike continued: partial C07 on the groups model – in runs without user exceptions a delivered
    cancellation is never swallowed, at whatever point of body / exit wait it arrives. -/
namespace Gr

def GroupOk (G : Group) : Prop :=
  G.errors = 0 ∧ G.bodyOut ≠ .exc ∧ G.pcr = false ∧ (G.aborting = true → G.bodyOut = .cancelled ∨ G.propagate = true)

def TaskOk (T : Task) : Prop := T.status ≠ .unwinding .exc ∧ T.status ≠ .done .exc

/-- what a task that was asked to cancel looks like until it ends cancelled -/
def Owed (s : Sys) (T : Task) : Prop :=
  T.mustCancel = true ∨ T.status = .unwinding .cancelled ∨
  (∃ g susp, T.status = .exitWait g susp ∧ ((s.groups g).bodyOut = .cancelled ∨ (s.groups g).propagate = true)) ∨
  T.status = .done .cancelled

structure K (s : Sys) : Prop where
  groups : ∀ g, GroupOk (s.groups g)
  tasks : ∀ t, TaskOk (s.tasks t)
  owed : ∀ t, (s.tasks t).owed = true → Owed s (s.tasks t)
  owner : ∀ c g, g ∈ (s.tasks c).scopes → (s.groups g).owner = c ∧ g < s.ngroups
  waitHead : ∀ c g susp, (s.tasks c).status = .exitWait g susp → g ∈ (s.tasks c).scopes

def noRaise : Label → Bool | .raise _ => false | _ => true

theorem init_K : K {} := by
  refine ⟨?_, ?_, ?_, ?_, ?_⟩
  · intro g; simp [GroupOk]
  · intro t; simp [TaskOk]
  · intro t h; simp at h
  · intro c g h; simp at h
  · intro c g susp h; simp at h

theorem requestCancel_status (T : Task) : (requestCancel T).status = T.status := by
  unfold requestCancel; split <;> rfl
theorem requestCancel_owed (T : Task) : (requestCancel T).owed = T.owed := by
  unfold requestCancel; split <;> rfl
theorem requestCancel_must (T : Task) (h : T.mustCancel = true) : (requestCancel T).mustCancel = true := by
  unfold requestCancel; split <;> simp [h]

/-- `requestCancel` can only help an owed task -/
theorem Owed_requestCancel (s : Sys) (T : Task) (h : Owed s T) : Owed s (requestCancel T) := by
  rcases h with h | h | h | h
  · exact Or.inl (requestCancel_must T h)
  · exact Or.inr (Or.inl (by rw [requestCancel_status]; exact h))
  · exact Or.inr (Or.inr (Or.inl (by rw [requestCancel_status]; exact h)))
  · exact Or.inr (Or.inr (Or.inr (by rw [requestCancel_status]; exact h)))

/-- `Owed` only reads `bodyOut` and `propagate` of the groups -/
theorem Owed_groups (s s' : Sys) (T : Task) (h : Owed s T)
    (hg : ∀ g, ((s.groups g).bodyOut = .cancelled ∨ (s.groups g).propagate = true) →
               ((s'.groups g).bodyOut = .cancelled ∨ (s'.groups g).propagate = true)) : Owed s' T := by
  rcases h with h | h | ⟨g, susp, h1, h2⟩ | h
  · exact Or.inl h
  · exact Or.inr (Or.inl h)
  · exact Or.inr (Or.inr (Or.inl ⟨g, susp, h1, hg g h2⟩))
  · exact Or.inr (Or.inr (Or.inr h))

theorem abort_owner (s : Sys) (g g' : Nat) : ((abort s g).groups g').owner = (s.groups g').owner := by
  unfold abort; simp only [upd]; split <;> simp_all

theorem abort_status (s : Sys) (g c : Nat) : ((abort s g).tasks c).status = (s.tasks c).status := by
  unfold abort; simp only; split <;> simp [requestCancel_status]

theorem abort_K (s : Sys) (g : Nat) (h : K s)
    (hg : (s.groups g).bodyOut = .cancelled ∨ (s.groups g).propagate = true) : K (abort s g) := by
  refine ⟨?_, ?_, ?_, ?_, ?_⟩
  rotate_left 3
  · intro c g' hm
    rw [abort_scopes] at hm; rw [abort_owner]; exact h.owner c g' hm
  · intro c g' susp hst
    rw [abort_status] at hst; rw [abort_scopes]; exact h.waitHead c g' susp hst
  · intro g'
    have := h.groups g'
    unfold abort; simp only [upd]
    by_cases hgg : g' = g
    · subst hgg; simp only [↓reduceIte]
      exact ⟨this.1, this.2.1, this.2.2.1, fun _ => hg⟩
    · simp only [hgg, ↓reduceIte]; exact this
  · intro t
    have := h.tasks t
    unfold abort; simp only
    split
    · unfold TaskOk; rw [requestCancel_status]; exact this
    · exact this
  · intro t ho
    have hgr : ∀ g', ((s.groups g').bodyOut = .cancelled ∨ (s.groups g').propagate = true) →
        (((abort s g).groups g').bodyOut = .cancelled ∨ ((abort s g).groups g').propagate = true) := by
      intro g' hh; unfold abort; simp only [upd]
      by_cases hgg : g' = g
      · subst hgg; simpa using hh
      · simpa [hgg] using hh
    unfold abort at ho ⊢; simp only at ho ⊢
    split
    · rename_i hm
      simp only [hm, ↓reduceIte, requestCancel_owed] at ho
      have := Owed_requestCancel s (s.tasks t) (h.owed t ho)
      exact Owed_groups s _ _ this hgr
    · rename_i hm
      simp only [hm, ↓reduceIte] at ho
      exact Owed_groups s _ _ (h.owed t ho) hgr

end Gr
