/-! Spike: task groups + cancellation (CPython 3.12 `TaskGroup` contract, haiway's repaired wrapper).
    C06.all_done_at_exit and a partial C07 (no user exceptions) over every interleaving. -/
namespace Gr

inductive Outcome where | ok | exc | cancelled
deriving DecidableEq, Repr

inductive Status where
  | body                                   -- running / suspended inside the innermost body
  | unwinding (o : Outcome)                -- an exception (or cancellation) is propagating
  | exitWait (g : Nat) (suspended : Bool)  -- inside `TaskGroup.__aexit__` of g
  | done (o : Outcome)
deriving DecidableEq, Repr

structure Task where
  scopes : List Nat := []        -- entered async scopes, innermost first
  base : Option Nat := none      -- group inherited through the context copy at spawn
  member : Option Nat := none    -- group this task was spawned into
  status : Status := .body
  cancelReq : Nat := 0           -- `Task.cancelling()`
  mustCancel : Bool := false     -- a CancelledError is due at the next resumption
  owed : Bool := false           -- ghost: an external cancel() was delivered to this task while it was alive
deriving Repr

structure Group where
  owner : Nat
  members : List Nat := []
  exiting : Bool := false
  aborting : Bool := false
  pcr : Bool := false            -- `_parent_cancel_requested`
  errors : Nat := 0
  propagate : Bool := false      -- `propagate_cancellation_error is not None`
  bodyOut : Outcome := .ok
deriving Repr

def upd {α} (f : Nat → α) (i : Nat) (v : α) : Nat → α := fun j => if j = i then v else f j

@[simp] theorem upd_same {α} (f : Nat → α) (i : Nat) (v : α) : upd f i v i = v := by simp [upd]
theorem upd_other {α} (f : Nat → α) (i j : Nat) (v : α) (h : j ≠ i) : upd f i v j = f j := by simp [upd, h]

structure Sys where
  ntasks : Nat := 1
  tasks : Nat → Task := fun _ => {}
  ngroups : Nat := 0
  groups : Nat → Group := fun _ => { owner := 0 }

def isDone (t : Task) : Bool := match t.status with | .done _ => true | _ => false

def ctxGroup (t : Task) : Option Nat := match t.scopes with | g :: _ => some g | [] => t.base

/-- `Task.cancel()` on a live task: bump the counter, deliver at the next resumption -/
def requestCancel (t : Task) : Task :=
  if isDone t then t else { t with cancelReq := t.cancelReq + 1, mustCancel := true }

/-- `TaskGroup._abort` -/
def abort (s : Sys) (g : Nat) : Sys :=
  { s with tasks := fun i => if i ∈ (s.groups g).members then requestCancel (s.tasks i) else s.tasks i,
           groups := upd s.groups g { s.groups g with aborting := true } }

inductive Label where
  | enter (t : Nat)
  | spawn (t : Nat)
  | cancel (t : Nat)                 -- external `task.cancel()`
  | deliver (t : Nat)                -- the pending CancelledError is thrown at the suspension point
  | raise (t : Nat)                  -- user code raises an ordinary exception in the body
  | bodyEnd (t : Nat)
  | exitDone (t : Nat)
  | taskEnd (t : Nat)
deriving Repr

def bodyOutcome (T : Task) : Option Outcome :=
  match T.status with | .body => some .ok | .unwinding o => some o | _ => none

/-- "Task is cancelled right before coro stops" -/
def finalOutcome (T : Task) (o : Outcome) : Outcome := if T.mustCancel && o == .ok then .cancelled else o

def markDone (s : Sys) (t : Nat) (final : Outcome) : Sys :=
  { s with tasks := upd s.tasks t { s.tasks t with status := .done final, mustCancel := false } }

def dropMember (s : Sys) (g t : Nat) (failed : Bool) : Sys :=
  { s with groups := upd s.groups g { s.groups g with members := (s.groups g).members.erase t,
                                                       errors := if failed then (s.groups g).errors + 1 else (s.groups g).errors } }

/-- `TaskGroup._on_task_done` for a failed member: abort the group and cancel the parent once -/
def failGroup (s : Sys) (g : Nat) : Sys :=
  let G := s.groups g
  if !isDone (s.tasks G.owner) && !G.aborting && !G.pcr then
    let s3 := abort s g
    { s3 with tasks := upd s3.tasks G.owner (requestCancel (s3.tasks G.owner)),
              groups := upd s3.groups g { s3.groups g with pcr := true } }
  else s

def endTask (s : Sys) (t : Nat) (final : Outcome) : Sys :=
  let s1 := markDone s t final
  match (s.tasks t).member with
  | none => s1
  | some g =>
    let s2 := dropMember s1 g t (final == .exc)
    if final = .exc then failGroup s2 g else s2

def step (s : Sys) : Label → Option Sys
  | .enter t =>
    let T := s.tasks t
    if t < s.ntasks ∧ T.status = .body then
      some { s with tasks := upd s.tasks t { T with scopes := s.ngroups :: T.scopes },
                    ngroups := s.ngroups + 1,
                    groups := upd s.groups s.ngroups { owner := t } }
    else none
  | .spawn t =>
    let T := s.tasks t
    if t < s.ntasks ∧ T.status = .body then
      match ctxGroup T with
      | none => some { s with ntasks := s.ntasks + 1, tasks := upd s.tasks s.ntasks {} }       -- detached
      | some g =>
        let G := s.groups g
        if G.aborting || (G.exiting && G.members.isEmpty) then none          -- `create_task` refuses
        else some { s with ntasks := s.ntasks + 1,
                           tasks := upd s.tasks s.ntasks { base := some g, member := some g },
                           groups := upd s.groups g { G with members := G.members ++ [s.ntasks] } }
    else none
  | .cancel t =>
    let T := s.tasks t
    if t < s.ntasks then
      if isDone T then some s
      else some { s with tasks := upd s.tasks t { requestCancel T with owed := true } }
    else none
  | .deliver t =>
    let T := s.tasks t
    if t < s.ntasks ∧ T.mustCancel then
      match T.status with
      | .body => some { s with tasks := upd s.tasks t { T with mustCancel := false, status := .unwinding .cancelled } }
      | .exitWait g true =>
        let G := s.groups g
        let s1 : Sys := { s with tasks := upd s.tasks t { T with mustCancel := false } }
        if G.aborting then some s1
        else some (abort { s1 with groups := upd s1.groups g { G with propagate := true } } g)
      | _ => none
    else none
  | .raise t =>
    let T := s.tasks t
    if t < s.ntasks ∧ T.status = .body then some { s with tasks := upd s.tasks t { T with status := .unwinding .exc } } else none
  | .bodyEnd t =>
    let T := s.tasks t
    if t < s.ntasks then
      match T.scopes, bodyOutcome T with
      | g :: _, some o =>
        let G := s.groups g
        let creq := if G.pcr then T.cancelReq - 1 else T.cancelReq
        let prop := (o == .cancelled) && !(G.pcr && creq == 0)
        let G1 := { G with exiting := true, bodyOut := o, propagate := prop }
        let s1 : Sys := { s with tasks := upd s.tasks t { T with cancelReq := creq, status := .exitWait g (!G.members.isEmpty) },
                                 groups := upd s.groups g G1 }
        if o ≠ .ok && !G.aborting then some (abort s1 g) else some s1
      | _, _ => none
    else none
  | .exitDone t =>
    let T := s.tasks t
    if t < s.ntasks then
      match T.status, T.scopes with
      | .exitWait g susp, g' :: rest =>
        let G := s.groups g
        if g = g' ∧ G.members.isEmpty ∧ !(susp && T.mustCancel) then
          let raisesCancel := G.propagate && G.errors == 0
          let result := if raisesCancel then Outcome.cancelled else G.bodyOut     -- haiway: re-raise cancel, silence the rest
          let st : Status := if result = .ok then .body else .unwinding result
          some { s with tasks := upd s.tasks t { T with scopes := rest, status := st } }
        else none
      | _, _ => none
    else none
  | .taskEnd t =>
    let T := s.tasks t
    if t < s.ntasks then
      match T.scopes, bodyOutcome T with
      | [], some o => some (endTask s t (finalOutcome T o))
      | _, _ => none
    else none

def run (s : Sys) : List Label → Option Sys
  | [] => some s
  | l :: ls => match step s l with | some s' => run s' ls | none => none

#eval (run {} [.enter 0, .spawn 0, .bodyEnd 0, .cancel 0, .deliver 0, .deliver 1, .taskEnd 1, .exitDone 0, .taskEnd 0]).map
  (fun s => (List.range s.ntasks).map (fun i => (s.tasks i).status))

/-! ### C06: membership invariant -/

theorem requestCancel_member (t : Task) : (requestCancel t).member = t.member := by
  unfold requestCancel; split <;> rfl

theorem requestCancel_isDone (t : Task) : isDone (requestCancel t) = isDone t := by
  unfold requestCancel
  by_cases h : isDone t
  · simp [h]
  · simp only [h, Bool.false_eq_true, ↓reduceIte]
    simp only [isDone] at h ⊢
    cases hs : t.status <;> simp_all

theorem abort_member (s : Sys) (g c : Nat) : ((abort s g).tasks c).member = (s.tasks c).member := by
  unfold abort; simp only; split <;> simp [requestCancel_member]

theorem abort_isDone (s : Sys) (g c : Nat) : isDone ((abort s g).tasks c) = isDone (s.tasks c) := by
  unfold abort; simp only; split <;> simp [requestCancel_isDone]

theorem abort_members (s : Sys) (g g' : Nat) : ((abort s g).groups g').members = (s.groups g').members := by
  unfold abort; simp only [upd]; split <;> simp_all

/-- every live task that was spawned into a group is still listed there -/
def MemInv (s : Sys) : Prop :=
  ∀ c, c < s.ntasks → ∀ g, (s.tasks c).member = some g → isDone (s.tasks c) = false → c ∈ (s.groups g).members


/-- group ids referenced by tasks exist -/
structure Wf (s : Sys) : Prop where
  member_lt : ∀ c, c < s.ntasks → ∀ g, (s.tasks c).member = some g → g < s.ngroups
  scopes_lt : ∀ c, c < s.ntasks → ∀ g ∈ (s.tasks c).scopes, g < s.ngroups
  base_lt : ∀ c, c < s.ntasks → ∀ g, (s.tasks c).base = some g → g < s.ngroups

structure Inv (s : Sys) : Prop where
  mem : MemInv s
  wf : Wf s

theorem requestCancel_scopes (t : Task) : (requestCancel t).scopes = t.scopes := by
  unfold requestCancel; split <;> rfl
theorem requestCancel_base (t : Task) : (requestCancel t).base = t.base := by
  unfold requestCancel; split <;> rfl
theorem abort_scopes (s : Sys) (g c : Nat) : ((abort s g).tasks c).scopes = (s.tasks c).scopes := by
  unfold abort; simp only; split <;> simp [requestCancel_scopes]
theorem abort_base (s : Sys) (g c : Nat) : ((abort s g).tasks c).base = (s.tasks c).base := by
  unfold abort; simp only; split <;> simp [requestCancel_base]
theorem abort_ntasks (s : Sys) (g : Nat) : (abort s g).ntasks = s.ntasks := rfl
theorem abort_ngroups (s : Sys) (g : Nat) : (abort s g).ngroups = s.ngroups := rfl

/-- a step that keeps the counters, every task's (member, scopes, base, isDone) and every member list keeps `Inv` -/
theorem Inv_same (s s' : Sys) (h : Inv s) (hn : s'.ntasks = s.ntasks) (hng : s'.ngroups = s.ngroups)
    (hm : ∀ c, (s'.tasks c).member = (s.tasks c).member) (hd : ∀ c, isDone (s'.tasks c) = isDone (s.tasks c))
    (hsc : ∀ c, (s'.tasks c).scopes = (s.tasks c).scopes) (hb : ∀ c, (s'.tasks c).base = (s.tasks c).base)
    (hg : ∀ g, (s'.groups g).members = (s.groups g).members) : Inv s' := by
  refine ⟨?_, ⟨?_, ?_, ?_⟩⟩
  · intro c hc g hmg hdn
    rw [hg]; exact h.mem c (hn ▸ hc) g (hm c ▸ hmg) (hd c ▸ hdn)
  · intro c hc g hmg; rw [hng]; exact h.wf.member_lt c (hn ▸ hc) g (hm c ▸ hmg)
  · intro c hc g hgs; rw [hng]; exact h.wf.scopes_lt c (hn ▸ hc) g (hsc c ▸ hgs)
  · intro c hc g hgb; rw [hng]; exact h.wf.base_lt c (hn ▸ hc) g (hb c ▸ hgb)

/-- `abort` only touches cancellation flags and the `aborting` bit -/
theorem abort_Inv (s : Sys) (g : Nat) (h : Inv s) : Inv (abort s g) :=
  Inv_same s _ h rfl rfl (abort_member s g) (abort_isDone s g) (abort_scopes s g) (abort_base s g) (abort_members s g)

theorem Inv_upd_task (s : Sys) (t : Nat) (T' : Task) (h : Inv s)
    (hm : T'.member = (s.tasks t).member) (hsc : T'.scopes = (s.tasks t).scopes)
    (hb : T'.base = (s.tasks t).base) (hd : isDone T' = isDone (s.tasks t)) :
    Inv { s with tasks := upd s.tasks t T' } := by
  refine Inv_same s _ h rfl rfl ?_ ?_ ?_ ?_ (fun _ => rfl)
  all_goals (intro c; simp only [upd]; split)
  all_goals first | rfl | (rename_i hct; subst hct; assumption)

theorem Inv_upd_group (s : Sys) (g : Nat) (G' : Group) (h : Inv s) (hm : G'.members = (s.groups g).members) :
    Inv { s with groups := upd s.groups g G' } := by
  refine Inv_same s _ h rfl rfl (fun _ => rfl) (fun _ => rfl) (fun _ => rfl) (fun _ => rfl) ?_
  intro g'; simp only [upd]; split
  · rename_i hgg; subst hgg; exact hm
  · rfl

theorem isDone_status_eq (T : Task) (st : Status) (cr : Nat) (mc : Bool)
    (h : (match st with | .done _ => true | _ => false) = isDone T) :
    isDone { T with status := st, cancelReq := cr, mustCancel := mc } = isDone T := by
  rw [← h]; cases st <;> rfl

/-- marking a task done (and, if it is a member, removing it from its group's list) keeps the invariant -/
theorem Inv_finish_task (s : Sys) (t : Nat) (T' : Task) (h : Inv s)
    (hm : T'.member = (s.tasks t).member) (hsc : T'.scopes = (s.tasks t).scopes)
    (hb : T'.base = (s.tasks t).base) (hd : isDone T' = true) :
    Inv { s with tasks := upd s.tasks t T' } := by
  refine ⟨?_, ⟨?_, ?_, ?_⟩⟩
  · intro c hc g hmg hdn
    simp only [upd] at hmg hdn ⊢
    by_cases hct : c = t
    · subst hct; simp [hd] at hdn
    · simp only [hct, ↓reduceIte] at hmg hdn; exact h.mem c hc g hmg hdn
  · intro c hc g hmg
    simp only [upd] at hmg
    by_cases hct : c = t
    · subst hct; simp at hmg; exact h.wf.member_lt c hc g (hm ▸ hmg)
    · simp only [hct, ↓reduceIte] at hmg; exact h.wf.member_lt c hc g hmg
  · intro c hc g hgs
    simp only [upd] at hgs
    by_cases hct : c = t
    · subst hct; simp at hgs; exact h.wf.scopes_lt c hc g (hsc ▸ hgs)
    · simp only [hct, ↓reduceIte] at hgs; exact h.wf.scopes_lt c hc g hgs
  · intro c hc g hgb
    simp only [upd] at hgb
    by_cases hct : c = t
    · subst hct; simp at hgb; exact h.wf.base_lt c hc g (hb ▸ hgb)
    · simp only [hct, ↓reduceIte] at hgb; exact h.wf.base_lt c hc g hgb

/-- removing a finished task from a member list keeps the invariant -/
theorem Inv_erase_member (s : Sys) (g t : Nat) (G' : Group) (h : Inv s) (hd : isDone (s.tasks t) = true)
    (hm : G'.members = (s.groups g).members.erase t) :
    Inv { s with groups := upd s.groups g G' } := by
  refine ⟨?_, ⟨h.wf.member_lt, h.wf.scopes_lt, h.wf.base_lt⟩⟩
  intro c hc g0 hmg hdn
  have := h.mem c hc g0 hmg hdn
  simp only [upd]
  by_cases hgg : g0 = g
  · subst hgg; simp only [↓reduceIte, hm]
    have hct : c ≠ t := by intro hct; subst hct; simp [hd] at hdn
    exact (List.mem_erase_of_ne hct).mpr this
  · simp only [hgg, ↓reduceIte]; exact this

theorem markDone_Inv (s : Sys) (t : Nat) (final : Outcome) (h : Inv s) : Inv (markDone s t final) :=
  Inv_finish_task s t _ h rfl rfl rfl (by simp [isDone])

theorem markDone_isDone (s : Sys) (t : Nat) (final : Outcome) : isDone ((markDone s t final).tasks t) = true := by
  simp [markDone, upd, isDone]

theorem dropMember_Inv (s : Sys) (g t : Nat) (failed : Bool) (h : Inv s) (hd : isDone (s.tasks t) = true) :
    Inv (dropMember s g t failed) :=
  Inv_erase_member s g t _ h hd rfl

theorem failGroup_Inv (s : Sys) (g : Nat) (h : Inv s) : Inv (failGroup s g) := by
  unfold failGroup
  simp only
  split
  · have h3 := abort_Inv s g h
    have h4 := Inv_upd_task _ (s.groups g).owner (requestCancel ((abort s g).tasks (s.groups g).owner)) h3
      (requestCancel_member _) (requestCancel_scopes _) (requestCancel_base _) (requestCancel_isDone _)
    exact Inv_upd_group _ g _ h4 rfl
  · exact h

theorem endTask_Inv (s : Sys) (t : Nat) (final : Outcome) (h : Inv s) : Inv (endTask s t final) := by
  unfold endTask
  simp only
  have h1 := markDone_Inv s t final h
  split
  · exact h1
  · rename_i g _
    have h2 := dropMember_Inv _ g t (final == .exc) h1 (markDone_isDone s t final)
    split
    · exact failGroup_Inv _ g h2
    · exact h2

theorem step_Inv (s s' : Sys) (l : Label) (h : Inv s) (hs : step s l = some s') : Inv s' := by
  cases l with
  | enter t =>
    simp only [step] at hs
    split at hs
    · rename_i hb
      simp only [Option.some.injEq] at hs; subst hs
      refine ⟨?_, ⟨?_, ?_, ?_⟩⟩
      · intro c hc g hmg hdn
        simp only [upd] at hmg hdn ⊢
        have hmem : (s.tasks c).member = some g := by by_cases hct : c = t <;> simp_all
        have hdone : isDone (s.tasks c) = false := by by_cases hct : c = t <;> simp_all [isDone]
        have hlt := h.wf.member_lt c hc g hmem
        have hgn : g ≠ s.ngroups := by omega
        simp [hgn]; exact h.mem c hc g hmem hdone
      · intro c hc g hmg
        simp only [upd] at hmg
        have hmem : (s.tasks c).member = some g := by by_cases hct : c = t <;> simp_all
        have := h.wf.member_lt c hc g hmem; simp; omega
      · intro c hc g hgs
        simp only [upd] at hgs
        by_cases hct : c = t
        · subst hct; simp at hgs
          rcases hgs with rfl | hgs
          · simp
          · have := h.wf.scopes_lt c hc g hgs; simp; omega
        · simp [hct] at hgs; have := h.wf.scopes_lt c hc g hgs; simp; omega
      · intro c hc g hgb
        simp only [upd] at hgb
        have hbase : (s.tasks c).base = some g := by by_cases hct : c = t <;> simp_all
        have := h.wf.base_lt c hc g hbase; simp; omega
    · simp at hs
  | spawn t =>
    simp only [step] at hs
    split at hs
    · rename_i hb
      cases hcg : ctxGroup (s.tasks t) with
      | none =>
        simp only [hcg, Option.some.injEq] at hs; subst hs
        refine ⟨?_, ⟨?_, ?_, ?_⟩⟩
        · intro c hc g hmg hdn
          simp only [upd] at hmg hdn ⊢
          by_cases hcn : c = s.ntasks
          · simp [hcn] at hmg
          · simp only [hcn, ↓reduceIte] at hmg hdn
            exact h.mem c (by simp at hc; omega) g hmg hdn
        · intro c hc g hmg
          simp only [upd] at hmg
          by_cases hcn : c = s.ntasks
          · simp [hcn] at hmg
          · simp only [hcn, ↓reduceIte] at hmg; exact h.wf.member_lt c (by simp at hc; omega) g hmg
        · intro c hc g hgs
          simp only [upd] at hgs
          by_cases hcn : c = s.ntasks
          · simp [hcn] at hgs
          · simp only [hcn, ↓reduceIte] at hgs; exact h.wf.scopes_lt c (by simp at hc; omega) g hgs
        · intro c hc g hgb
          simp only [upd] at hgb
          by_cases hcn : c = s.ntasks
          · simp [hcn] at hgb
          · simp only [hcn, ↓reduceIte] at hgb; exact h.wf.base_lt c (by simp at hc; omega) g hgb
      | some g0 =>
        simp only [hcg] at hs
        split at hs
        · simp at hs
        · simp only [Option.some.injEq] at hs; subst hs
          have hg0 : g0 < s.ngroups := by
            unfold ctxGroup at hcg
            cases hsc : (s.tasks t).scopes with
            | nil => simp [hsc] at hcg; exact h.wf.base_lt t hb.1 g0 hcg
            | cons x xs => simp [hsc] at hcg; subst hcg; exact h.wf.scopes_lt t hb.1 x (by simp [hsc])
          refine ⟨?_, ⟨?_, ?_, ?_⟩⟩
          · intro c hc g hmg hdn
            simp only [upd] at hmg hdn ⊢
            by_cases hcn : c = s.ntasks
            · simp [hcn] at hmg; subst hmg; simp [hcn]
            · simp only [hcn, ↓reduceIte] at hmg hdn
              have := h.mem c (by simp at hc; omega) g hmg hdn
              by_cases hgg : g = g0
              · subst hgg; simp; exact Or.inl this
              · simp [hgg]; exact this
          · intro c hc g hmg
            simp only [upd] at hmg
            by_cases hcn : c = s.ntasks
            · simp [hcn] at hmg; subst hmg; exact hg0
            · simp only [hcn, ↓reduceIte] at hmg; exact h.wf.member_lt c (by simp at hc; omega) g hmg
          · intro c hc g hgs
            simp only [upd] at hgs
            by_cases hcn : c = s.ntasks
            · simp [hcn] at hgs
            · simp only [hcn, ↓reduceIte] at hgs; exact h.wf.scopes_lt c (by simp at hc; omega) g hgs
          · intro c hc g hgb
            simp only [upd] at hgb
            by_cases hcn : c = s.ntasks
            · simp [hcn] at hgb; subst hgb; exact hg0
            · simp only [hcn, ↓reduceIte] at hgb; exact h.wf.base_lt c (by simp at hc; omega) g hgb
    · simp at hs
  | cancel t =>
    simp only [step] at hs
    split at hs
    · split at hs
      · simp only [Option.some.injEq] at hs; subst hs; exact h
      · simp only [Option.some.injEq] at hs; subst hs
        apply Inv_upd_task s t _ h
        · simp [requestCancel_member]
        · simp [requestCancel_scopes]
        · simp [requestCancel_base]
        · have := requestCancel_isDone (s.tasks t); simpa [isDone] using this
    · simp at hs
  | raise t =>
    simp only [step] at hs
    split at hs
    · rename_i hb
      simp only [Option.some.injEq] at hs; subst hs
      exact Inv_upd_task s t _ h rfl rfl rfl (by simp [isDone, hb.2])
    · simp at hs
  | deliver t =>
    simp only [step] at hs
    split at hs
    · rename_i hb
      cases hst : (s.tasks t).status with
      | body =>
        simp only [hst, Option.some.injEq] at hs; subst hs
        exact Inv_upd_task s t _ h rfl rfl rfl (by simp [isDone, hst])
      | exitWait g susp =>
        cases susp with
        | false => simp [hst] at hs
        | true =>
          simp only [hst] at hs
          have hbase := Inv_upd_task s t { s.tasks t with mustCancel := false, status := .exitWait g true } h rfl rfl rfl
            (by simp [isDone, hst])
          split at hs
          · simp only [Option.some.injEq] at hs; subst hs; exact hbase
          · simp only [Option.some.injEq] at hs; subst hs
            apply abort_Inv
            exact Inv_upd_group _ g { s.groups g with propagate := true } hbase rfl
      | unwinding o => simp [hst] at hs
      | done o => simp [hst] at hs
    · simp at hs
  | bodyEnd t =>
    simp only [step] at hs
    split at hs
    · rename_i hb
      cases hsc : (s.tasks t).scopes with
      | nil => simp [hsc] at hs
      | cons g rest =>
        cases hbo : bodyOutcome (s.tasks t) with
        | none => simp [hsc, hbo] at hs
        | some o =>
          simp only [hsc, hbo] at hs
          have hnd : isDone (s.tasks t) = false := by
            unfold bodyOutcome at hbo
            cases hstt : (s.tasks t).status <;> simp_all [isDone]
          have key : ∀ (T' : Task) (G' : Group), T'.member = (s.tasks t).member → T'.scopes = (s.tasks t).scopes →
              T'.base = (s.tasks t).base → isDone T' = false → G'.members = (s.groups g).members →
              Inv { s with tasks := upd s.tasks t T', groups := upd s.groups g G' } := by
            intro T' G' h1 h2 h3 h4 h5
            exact Inv_upd_group _ g G' (Inv_upd_task s t T' h h1 h2 h3 (by rw [h4, hnd])) h5
          split at hs
          · simp only [Option.some.injEq] at hs; subst hs
            apply abort_Inv
            exact key _ _ rfl (by simp [hsc]) rfl (by simp [isDone]) rfl
          · simp only [Option.some.injEq] at hs; subst hs
            exact key _ _ rfl (by simp [hsc]) rfl (by simp [isDone]) rfl
    · simp at hs
  | exitDone t =>
    simp only [step] at hs
    split at hs
    · rename_i hb
      cases hst : (s.tasks t).status with
      | exitWait g susp =>
        cases hsc : (s.tasks t).scopes with
        | nil => simp [hst, hsc] at hs
        | cons g' rest =>
          simp only [hst, hsc] at hs
          split at hs
          · simp only [Option.some.injEq] at hs; subst hs
            refine ⟨?_, ⟨?_, ?_, ?_⟩⟩
            · intro c hc g0 hmg hdn
              simp only [upd] at hmg hdn ⊢
              by_cases hct : c = t
              · subst hct; simp at hmg
                exact h.mem c hc g0 hmg (by simp [isDone, hst])
              · simp only [hct, ↓reduceIte] at hmg hdn; exact h.mem c hc g0 hmg hdn
            · intro c hc g0 hmg
              simp only [upd] at hmg
              have : (s.tasks c).member = some g0 := by by_cases hct : c = t <;> simp_all
              exact h.wf.member_lt c hc g0 this
            · intro c hc g0 hgs
              simp only [upd] at hgs
              by_cases hct : c = t
              · subst hct; simp at hgs
                exact h.wf.scopes_lt c hc g0 (by simp [hsc, hgs])
              · simp only [hct, ↓reduceIte] at hgs; exact h.wf.scopes_lt c hc g0 hgs
            · intro c hc g0 hgb
              simp only [upd] at hgb
              have : (s.tasks c).base = some g0 := by by_cases hct : c = t <;> simp_all
              exact h.wf.base_lt c hc g0 this
          · simp at hs
      | body => simp [hst] at hs
      | unwinding o => simp [hst] at hs
      | done o => simp [hst] at hs
    · simp at hs
  | taskEnd t =>
    simp only [step] at hs
    split at hs
    · split at hs
      · simp only [Option.some.injEq] at hs; subst hs; exact endTask_Inv s t _ h
      · simp at hs
    · simp at hs

/-- C06.all_done_at_exit: when a scope's exit completes, every task spawned into its group is done -/
theorem all_done_at_exit (s s' : Sys) (t : Nat) (h : Inv s) (hs : step s (.exitDone t) = some s') :
    ∃ g, (s.tasks t).scopes.head? = some g ∧
      ∀ c, c < s.ntasks → (s.tasks c).member = some g → isDone (s.tasks c) = true := by
  simp only [step] at hs
  split at hs
  · cases hst : (s.tasks t).status with
    | exitWait g susp =>
      cases hsc : (s.tasks t).scopes with
      | nil => simp [hst, hsc] at hs
      | cons g' rest =>
        simp only [hst, hsc] at hs
        split at hs
        · rename_i hcond
          refine ⟨g', by simp, ?_⟩
          intro c hc hm
          cases hd : isDone (s.tasks c) with
          | true => rfl
          | false =>
            have := h.mem c hc g' hm hd
            have hemp : (s.groups g).members = [] := by simpa using hcond.2.1
            rw [← hcond.1, hemp] at this
            simp at this
        · simp at hs
    | body => simp [hst] at hs
    | unwinding o => simp [hst] at hs
    | done o => simp [hst] at hs
  · simp at hs

end Gr

namespace Gr

theorem init_Inv : Inv {} := by
  refine ⟨?_, ⟨?_, ?_, ?_⟩⟩ <;> intro c _ g hm <;> simp at hm

theorem run_Inv : ∀ (ls : List Label) (s s' : Sys), Inv s → run s ls = some s' → Inv s'
  | [], s, s', h, hr => by simp [run] at hr; exact hr ▸ h
  | l :: ls, s, s', h, hr => by
    simp only [run] at hr
    cases hs : step s l with
    | none => simp [hs] at hr
    | some s1 => simp only [hs] at hr; exact run_Inv ls s1 s' (step_Inv s s1 l h hs) hr

/-- C06 for every interleaving: whatever happened before, when a scope's exit completes every task
    that was ever spawned into its group (directly, from nested bodies, or by other members) is done -/
theorem C06_all_done_at_exit (ls : List Label) (s s' : Sys) (t : Nat)
    (hr : run {} ls = some s) (hs : step s (.exitDone t) = some s') :
    ∃ g, (s.tasks t).scopes.head? = some g ∧
      ∀ c, c < s.ntasks → (s.tasks c).member = some g → isDone (s.tasks c) = true :=
  all_done_at_exit s s' t (run_Inv ls {} s init_Inv hr) hs

end Gr
#print axioms Gr.C06_all_done_at_exit
