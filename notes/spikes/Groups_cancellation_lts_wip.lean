/-! Spike: task groups + cancellation (CPython 3.12 `TaskGroup` contract, haiway's repaired wrapper).
    C06.all_done_at_exit and a partial C07 (no user exceptions) over every interleaving. -/
namespace Gr

inductive Outcome where | ok | exc | cancelled
deriving DecidableEq, Repr

inductive Status where
  | body                                   -- running / suspended inside the innermost body
  | unwinding (o : Outcome)                -- an exception (or cancellation) is propagating
  | exitWait (g : Nat) (suspended : Bool)  -- inside `TaskGroup.__aexit__` of g
  | done (o : Outcome)
deriving DecidableEq, Repr

structure Task where
  scopes : List Nat := []        -- entered async scopes, innermost first
  base : Option Nat := none      -- group inherited through the context copy at spawn
  member : Option Nat := none    -- group this task was spawned into
  status : Status := .body
  cancelReq : Nat := 0           -- `Task.cancelling()`
  mustCancel : Bool := false     -- a CancelledError is due at the next resumption
  owed : Bool := false           -- ghost: an external cancel() was delivered to this task while it was alive
deriving Repr

structure Group where
  owner : Nat
  members : List Nat := []
  exiting : Bool := false
  aborting : Bool := false
  pcr : Bool := false            -- `_parent_cancel_requested`
  errors : Nat := 0
  propagate : Bool := false      -- `propagate_cancellation_error is not None`
  bodyOut : Outcome := .ok
deriving Repr

def upd {α} (f : Nat → α) (i : Nat) (v : α) : Nat → α := fun j => if j = i then v else f j

@[simp] theorem upd_same {α} (f : Nat → α) (i : Nat) (v : α) : upd f i v i = v := by simp [upd]
theorem upd_other {α} (f : Nat → α) (i j : Nat) (v : α) (h : j ≠ i) : upd f i v j = f j := by simp [upd, h]

structure Sys where
  ntasks : Nat := 1
  tasks : Nat → Task := fun _ => {}
  ngroups : Nat := 0
  groups : Nat → Group := fun _ => { owner := 0 }

def isDone (t : Task) : Bool := match t.status with | .done _ => true | _ => false

def ctxGroup (t : Task) : Option Nat := match t.scopes with | g :: _ => some g | [] => t.base

/-- `Task.cancel()` on a live task: bump the counter, deliver at the next resumption -/
def requestCancel (t : Task) : Task :=
  if isDone t then t else { t with cancelReq := t.cancelReq + 1, mustCancel := true }

/-- `TaskGroup._abort` -/
def abort (s : Sys) (g : Nat) : Sys :=
  { s with tasks := fun i => if i ∈ (s.groups g).members then requestCancel (s.tasks i) else s.tasks i,
           groups := upd s.groups g { s.groups g with aborting := true } }

inductive Label where
  | enter (t : Nat)
  | spawn (t : Nat)
  | cancel (t : Nat)                 -- external `task.cancel()`
  | deliver (t : Nat)                -- the pending CancelledError is thrown at the suspension point
  | raise (t : Nat)                  -- user code raises an ordinary exception in the body
  | bodyEnd (t : Nat)
  | exitDone (t : Nat)
  | taskEnd (t : Nat)
deriving Repr

def bodyOutcome (T : Task) : Option Outcome :=
  match T.status with | .body => some .ok | .unwinding o => some o | _ => none

def step (s : Sys) : Label → Option Sys
  | .enter t =>
    let T := s.tasks t
    if t < s.ntasks ∧ T.status = .body then
      some { s with tasks := upd s.tasks t { T with scopes := s.ngroups :: T.scopes },
                    ngroups := s.ngroups + 1,
                    groups := upd s.groups s.ngroups { owner := t } }
    else none
  | .spawn t =>
    let T := s.tasks t
    if t < s.ntasks ∧ T.status = .body then
      match ctxGroup T with
      | none => some { s with ntasks := s.ntasks + 1, tasks := upd s.tasks s.ntasks {} }       -- detached
      | some g =>
        let G := s.groups g
        if G.aborting || (G.exiting && G.members.isEmpty) then none          -- `create_task` refuses
        else some { s with ntasks := s.ntasks + 1,
                           tasks := upd s.tasks s.ntasks { base := some g, member := some g },
                           groups := upd s.groups g { G with members := G.members ++ [s.ntasks] } }
    else none
  | .cancel t =>
    let T := s.tasks t
    if t < s.ntasks then
      if isDone T then some s
      else some { s with tasks := upd s.tasks t { requestCancel T with owed := true } }
    else none
  | .deliver t =>
    let T := s.tasks t
    if t < s.ntasks ∧ T.mustCancel then
      match T.status with
      | .body => some { s with tasks := upd s.tasks t { T with mustCancel := false, status := .unwinding .cancelled } }
      | .exitWait g true =>
        let G := s.groups g
        let s1 : Sys := { s with tasks := upd s.tasks t { T with mustCancel := false } }
        if G.aborting then some s1
        else some (abort { s1 with groups := upd s1.groups g { G with propagate := true } } g)
      | _ => none
    else none
  | .raise t =>
    let T := s.tasks t
    if t < s.ntasks ∧ T.status = .body then some { s with tasks := upd s.tasks t { T with status := .unwinding .exc } } else none
  | .bodyEnd t =>
    let T := s.tasks t
    if t < s.ntasks then
      match T.scopes, bodyOutcome T with
      | g :: _, some o =>
        let G := s.groups g
        let creq := if G.pcr then T.cancelReq - 1 else T.cancelReq
        let prop := (o == .cancelled) && !(G.pcr && creq == 0)
        let G1 := { G with exiting := true, bodyOut := o, propagate := prop }
        let s1 : Sys := { s with tasks := upd s.tasks t { T with cancelReq := creq, status := .exitWait g (!G.members.isEmpty) },
                                 groups := upd s.groups g G1 }
        if o ≠ .ok && !G.aborting then some (abort s1 g) else some s1
      | _, _ => none
    else none
  | .exitDone t =>
    let T := s.tasks t
    if t < s.ntasks then
      match T.status, T.scopes with
      | .exitWait g susp, g' :: rest =>
        let G := s.groups g
        if g = g' ∧ G.members.isEmpty ∧ !(susp && T.mustCancel) then
          let raisesCancel := G.propagate && G.errors == 0
          let result := if raisesCancel then Outcome.cancelled else G.bodyOut     -- haiway: re-raise cancel, silence the rest
          let st : Status := if result = .ok then .body else .unwinding result
          some { s with tasks := upd s.tasks t { T with scopes := rest, status := st } }
        else none
      | _, _ => none
    else none
  | .taskEnd t =>
    let T := s.tasks t
    if t < s.ntasks then
      match T.scopes, bodyOutcome T with
      | [], some o =>
        let final := if T.mustCancel && o == .ok then Outcome.cancelled else o     -- "cancelled right before coro stops"
        let s1 : Sys := { s with tasks := upd s.tasks t { T with status := .done final, mustCancel := false } }
        match T.member with
        | none => some s1
        | some g =>
          let G := s1.groups g
          let G1 := { G with members := G.members.erase t }
          if final = .exc then
            let G2 := { G1 with errors := G1.errors + 1 }
            let s2 : Sys := { s1 with groups := upd s1.groups g G2 }
            if !isDone (s2.tasks G.owner) && !G.aborting && !G.pcr then
              let s3 := abort s2 g
              some { s3 with tasks := upd s3.tasks G.owner (requestCancel (s3.tasks G.owner)),
                             groups := upd s3.groups g { s3.groups g with pcr := true } }
            else some s2
          else some { s1 with groups := upd s1.groups g G1 }
      | _, _ => none
    else none

def run (s : Sys) : List Label → Option Sys
  | [] => some s
  | l :: ls => match step s l with | some s' => run s' ls | none => none

#eval (run {} [.enter 0, .spawn 0, .bodyEnd 0, .cancel 0, .deliver 0, .deliver 1, .taskEnd 1, .exitDone 0, .taskEnd 0]).map
  (fun s => (List.range s.ntasks).map (fun i => (s.tasks i).status))

/-! ### C06: membership invariant -/

theorem requestCancel_member (t : Task) : (requestCancel t).member = t.member := by
  unfold requestCancel; split <;> rfl

theorem requestCancel_isDone (t : Task) : isDone (requestCancel t) = isDone t := by
  unfold requestCancel
  by_cases h : isDone t
  · simp [h]
  · simp only [h, Bool.false_eq_true, ↓reduceIte]
    simp only [isDone] at h ⊢
    cases hs : t.status <;> simp_all

theorem abort_member (s : Sys) (g c : Nat) : ((abort s g).tasks c).member = (s.tasks c).member := by
  unfold abort; simp only; split <;> simp [requestCancel_member]

theorem abort_isDone (s : Sys) (g c : Nat) : isDone ((abort s g).tasks c) = isDone (s.tasks c) := by
  unfold abort; simp only; split <;> simp [requestCancel_isDone]

theorem abort_members (s : Sys) (g g' : Nat) : ((abort s g).groups g').members = (s.groups g').members := by
  unfold abort; simp only [upd]; split <;> simp_all

/-- every live task that was spawned into a group is still listed there -/
def MemInv (s : Sys) : Prop :=
  ∀ c, c < s.ntasks → ∀ g, (s.tasks c).member = some g → isDone (s.tasks c) = false → c ∈ (s.groups g).members


/-- a step that keeps `ntasks`, every task's (member, isDone) and every group's member list keeps the invariant -/
theorem MemInv_same (s s' : Sys) (h : MemInv s) (hn : s'.ntasks = s.ntasks)
    (hm : ∀ c, (s'.tasks c).member = (s.tasks c).member) (hd : ∀ c, isDone (s'.tasks c) = isDone (s.tasks c))
    (hg : ∀ g, (s'.groups g).members = (s.groups g).members) : MemInv s' := by
  intro c hc g hmg hdn
  rw [hg]; exact h c (hn ▸ hc) g (hm c ▸ hmg) (hd c ▸ hdn)

theorem isDone_upd_status (T : Task) (st : Status) (h : isDone T = false) (hst : ∀ o, st ≠ .done o) :
    isDone { T with status := st } = false := by
  cases st <;> simp_all [isDone]

theorem step_MemInv (s s' : Sys) (l : Label) (h : MemInv s) (hs : step s l = some s') : MemInv s' := by
  cases l with
  | enter t =>
    simp only [step] at hs
    split at hs
    · simp only [Option.some.injEq] at hs; subst hs
      intro c hc g hmg hdn
      simp only [upd] at hmg hdn ⊢
      have hmem : (s.tasks c).member = some g := by by_cases hct : c = t <;> simp_all
      have hdone : isDone (s.tasks c) = false := by by_cases hct : c = t <;> simp_all [isDone]
      have := h c hc g hmem hdone
      by_cases hgn : g = s.ngroups
      · -- fresh group id cannot be referenced yet: keep it simple, the new group has no members but nobody points to it
        subst hgn; simp; sorry
      · simp [hgn]; exact this
    · simp at hs
  | cancel t =>
    simp only [step] at hs
    split at hs
    · split at hs
      · simp only [Option.some.injEq] at hs; subst hs; exact h
      · simp only [Option.some.injEq] at hs; subst hs
        refine MemInv_same s _ h rfl ?_ ?_ (fun _ => rfl)
        · intro c; simp only [upd]; split <;> simp_all [requestCancel_member]
        · intro c; simp only [upd]; split
          · rename_i hct; subst hct
            have := requestCancel_isDone (s.tasks c)
            simpa [isDone] using this
          · rfl
    · simp at hs
  | raise t =>
    simp only [step] at hs
    split at hs
    · rename_i hb
      simp only [Option.some.injEq] at hs; subst hs
      refine MemInv_same s _ h rfl ?_ ?_ (fun _ => rfl)
      · intro c; simp only [upd]; split <;> simp_all
      · intro c; simp only [upd]; split
        · rename_i hct; subst hct; simp [isDone, hb.2]
        · rfl
    · simp at hs
  | _ => sorry

end Gr
