/-! Spike: trace-id / logger inheritance and the %-format safety of the scope prefix (C19, repaired code). -/
namespace Lg

structure ScopeSpec where
  name : List Char
  traceId : Option Nat     -- explicitly given trace id
  logger : Option Nat      -- explicitly given logger
deriving Repr

/-- trace id of the innermost scope of a path (outermost first); `fresh` is the id generated for the root -/
def traceOf (fresh : Nat) : List ScopeSpec → Nat
  | [] => fresh
  | sc :: rest => go (sc.traceId.getD fresh) rest
where go (cur : Nat) : List ScopeSpec → Nat
  | [] => cur
  | sc :: rest => go (sc.traceId.getD cur) rest       -- `trace_id or current.trace_id`

/-- spec: the nearest enclosing explicitly given id, else the root's fresh one -/
def nearestGiven (path : List ScopeSpec) : Option Nat := path.reverse.findSome? (·.traceId)

theorem go_spec (cur : Nat) (path : List ScopeSpec) :
    traceOf.go cur path = (nearestGiven path).getD cur := by
  induction path generalizing cur with
  | nil => simp [traceOf.go, nearestGiven]
  | cons sc rest ih =>
    simp only [traceOf.go, ih, nearestGiven, List.reverse_cons, List.findSome?_append]
    cases h : rest.reverse.findSome? (·.traceId) with
    | some v => simp [nearestGiven, h]
    | none => cases hsc : sc.traceId <;> simp [nearestGiven, h, hsc]

/-- C19.trace_inherit -/
theorem trace_inherit (fresh : Nat) (path : List ScopeSpec) (h : path ≠ []) :
    traceOf fresh path = (nearestGiven path).getD fresh := by
  cases path with
  | nil => exact absurd rfl h
  | cons sc rest =>
    simp only [traceOf, go_spec, nearestGiven, List.reverse_cons, List.findSome?_append]
    cases h : rest.reverse.findSome? (·.traceId) with
    | some v => simp [nearestGiven, h]
    | none => cases hsc : sc.traceId <;> simp [nearestGiven, h, hsc]

/-! ### %-format reader: conversion specs of a format string (`none` = malformed) -/

def convChars : List Char := ['s', 'd', 'r', 'f', 'i', 'x', 'a', 'c', 'e', 'g', 'o', 'u', 'X', 'E', 'F', 'G']

def specs : List Char → Option (List Char)
  | [] => some []
  | '%' :: '%' :: rest => specs rest
  | '%' :: c :: rest => if c ∈ convChars then (specs rest).map (c :: ·) else none
  | ['%'] => none
  | _ :: rest => specs rest

/-- what the repaired `ScopeMetrics.log` does to the prefix when formatting will be applied -/
def escape : List Char → List Char
  | [] => []
  | '%' :: rest => '%' :: '%' :: escape rest
  | c :: rest => c :: escape rest

theorem specs_cons_ne (c : Char) (rest : List Char) (h : c ≠ '%') : specs (c :: rest) = specs rest := by
  rw [specs.eq_def]
  split
  · rename_i heq; cases heq
  · rename_i heq; cases heq; exact absurd rfl h
  · rename_i heq; cases heq; exact absurd rfl h
  · rename_i heq; cases heq; exact absurd rfl h
  · rename_i heq; cases heq; rfl

/-- C19.not_lost: prefixing the escaped scope prefix never changes which conversions the format string has,
    so `msg % args` succeeds after prefixing exactly when it did before – for every scope name -/
theorem escape_cons_ne (c : Char) (rest : List Char) (h : c ≠ '%') : escape (c :: rest) = c :: escape rest := by
  rw [escape.eq_def]
  split
  · rename_i heq; cases heq
  · rename_i heq; cases heq; exact absurd rfl h
  · rename_i heq; cases heq; rfl

theorem specs_pct_pct (rest : List Char) : specs ('%' :: '%' :: rest) = specs rest := by
  rw [specs.eq_def]; rfl

theorem specs_escape_append (p msg : List Char) : specs (escape p ++ msg) = specs msg := by
  induction p with
  | nil => simp [escape]
  | cons c rest ih =>
    by_cases hc : c = '%'
    · subst hc
      have : escape ('%' :: rest) = '%' :: '%' :: escape rest := by rw [escape.eq_def]; rfl
      rw [this, List.cons_append, List.cons_append, specs_pct_pct]; exact ih
    · rw [escape_cons_ne c rest hc, List.cons_append, specs_cons_ne c _ hc]; exact ih

theorem not_lost (pfx msg : List Char) : specs (escape pfx ++ ' ' :: msg) = specs msg := by
  rw [specs_escape_append, specs_cons_ne ' ' msg (by decide)]

end Lg
#print axioms Lg.trace_inherit
#print axioms Lg.not_lost
