/-! Spike: `ScopeMetrics.record` / `metrics(merge=…)` (C10): fold in recording order, merged view in
    creation order, for every merge function. -/
namespace Mt

abbrev Store := List (Nat × Nat)     -- metric type ↦ value, in first-recorded order (a python dict)

def get (s : Store) (ty : Nat) : Option Nat := (s.find? (·.1 = ty)).map (·.2)

def put (s : Store) (ty v : Nat) : Store :=
  match s with
  | [] => [(ty, v)]
  | (t, x) :: rest => if t = ty then (t, v) :: rest else (t, x) :: put rest ty v

/-- `ScopeMetrics.record(metric, merge=…)` -/
def record (s : Store) (ty v : Nat) (merge : Nat → Nat → Nat) : Store :=
  match get s ty with
  | some cur => put s ty (merge cur v)
  | none => put s ty v

theorem get_put (s : Store) (ty ty' v : Nat) : get (put s ty v) ty' = if ty' = ty then some v else get s ty' := by
  induction s with
  | nil => simp [put, get, List.find?]; split <;> simp_all [eq_comm]
  | cons p rest ih =>
    obtain ⟨t, x⟩ := p
    unfold put
    by_cases ht : t = ty
    · subst ht
      by_cases h' : ty' = t
      · subst h'; simp [get, List.find?]
      · have : ¬ t = ty' := fun h => h' h.symm
        simp [get, List.find?, this, h']
    · simp only [ht, ↓reduceIte]
      by_cases h' : t = ty'
      · subst h'
        have : ¬ t = ty := ht
        simp [get, List.find?, this]
      · simp only [get, List.find?_cons, h', decide_false] at ih ⊢
        simpa [get] using ih

/-- C10.fold: after recording `vs` for type `ty` (interleaved with records of other types), the scope's value
    for `ty` is the left fold of the supplied merge functions in recording order -/
def recordAll (s : Store) : List (Nat × Nat × (Nat → Nat → Nat)) → Store
  | [] => s
  | (ty, v, m) :: rest => recordAll (record s ty v m) rest

def foldFor (ty : Nat) : Option Nat → List (Nat × Nat × (Nat → Nat → Nat)) → Option Nat
  | acc, [] => acc
  | acc, (t, v, m) :: rest =>
    if t = ty then foldFor ty (some (match acc with | some cur => m cur v | none => v)) rest
    else foldFor ty acc rest

theorem get_record (s : Store) (ty v : Nat) (m : Nat → Nat → Nat) (ty' : Nat) :
    get (record s ty v m) ty' =
      if ty' = ty then some (match get s ty with | some cur => m cur v | none => v) else get s ty' := by
  unfold record
  cases h : get s ty <;> simp [get_put]

theorem fold (recs : List (Nat × Nat × (Nat → Nat → Nat))) (s : Store) (ty : Nat) :
    get (recordAll s recs) ty = foldFor ty (get s ty) recs := by
  induction recs generalizing s with
  | nil => rfl
  | cons r rest ih =>
    obtain ⟨t, v, m⟩ := r
    simp only [recordAll, foldFor]
    rw [ih, get_record]
    by_cases h : t = ty
    · subst h; simp
    · have : ¬ ty = t := fun h' => h h'.symm
      simp [h, this]

/-- the merged view: own values, then every nested scope's own merged view, in creation order -/
inductive Tree where
  | node (own : Store) (nested : List Tree)

def mergeInto (merge : Option Nat → Nat → Option Nat) (acc : Store) : Store → Store
  | [] => acc
  | (ty, v) :: rest =>
    mergeInto merge (match merge (get acc ty) v with | some r => put acc ty r | none => acc) rest

mutual
def view (merge : Option Nat → Nat → Option Nat) : Tree → Store
  | .node own nested => viewList merge own nested
def viewList (merge : Option Nat → Nat → Option Nat) (acc : Store) : List Tree → Store
  | [] => acc
  | t :: ts => viewList merge (mergeInto merge acc (view merge t)) ts
end

/-- C10.view (structural form): the view of a scope is its own store with the views of the nested scopes
    folded in one after the other, in creation order -/
theorem viewList_eq (merge : Option Nat → Nat → Option Nat) (ts : List Tree) (acc : Store) :
    viewList merge acc ts = ts.foldl (fun acc t => mergeInto merge acc (view merge t)) acc := by
  induction ts generalizing acc with
  | nil => simp [viewList]
  | cons t ts ih => simp only [viewList, List.foldl_cons]; exact ih _

theorem view_node (merge : Option Nat → Nat → Option Nat) (own : Store) (nested : List Tree) :
    view merge (.node own nested) = nested.foldl (fun acc t => mergeInto merge acc (view merge t)) own := by
  rw [view]; exact viewList_eq merge nested own

end Mt
#print axioms Mt.fold
#print axioms Mt.view_node
