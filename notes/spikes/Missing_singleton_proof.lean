/-! Spike: MISSING as a singleton under copy / deepcopy / pickle (C20, repaired `__reduce__`). -/
namespace Ms

inductive Val where
  | missing (id : Nat)            -- object identity; 0 is THE singleton
  | atom (n : Nat)
  | list (xs : List Val) | tuple (xs : List Val)
  | dict (kvs : List (Val × Val))
  | state (cls : Nat) (fields : List (Nat × Val))
deriving Repr, Inhabited

/-- `Missing()` – the metaclass `__call__` returns the cached instance -/
def callType : Val := .missing 0

/-- how an object is rebuilt by the reduce protocol: repaired code returns `(Missing, ())` -/
def rebuildMissing (_old : Nat) : Val := callType

mutual
/-- `copy.deepcopy` / a pickle round trip: containers are rebuilt, MISSING goes through `__reduce__` -/
def deepcopy : Val → Val
  | .missing id => rebuildMissing id
  | .atom n => .atom n
  | .list xs => .list (deepcopyList xs)
  | .tuple xs => .tuple (deepcopyList xs)
  | .dict kvs => .dict (deepcopyPairs kvs)
  | .state c fs => .state c (deepcopyFields fs)      -- repaired State copies are the instance itself or a rebuild: both covered
def deepcopyList : List Val → List Val
  | [] => []
  | x :: xs => deepcopy x :: deepcopyList xs
def deepcopyPairs : List (Val × Val) → List (Val × Val)
  | [] => []
  | (k, v) :: r => (deepcopy k, deepcopy v) :: deepcopyPairs r
def deepcopyFields : List (Nat × Val) → List (Nat × Val)
  | [] => []
  | (n, v) :: r => (n, deepcopy v) :: deepcopyFields r
end

mutual
/-- every MISSING leaf is the singleton -/
def allSingleton : Val → Bool
  | .missing id => id == 0
  | .atom _ => true
  | .list xs => allSingletonList xs
  | .tuple xs => allSingletonList xs
  | .dict kvs => allSingletonPairs kvs
  | .state _ fs => allSingletonFields fs
def allSingletonList : List Val → Bool
  | [] => true
  | x :: xs => allSingleton x && allSingletonList xs
def allSingletonPairs : List (Val × Val) → Bool
  | [] => true
  | (k, v) :: r => allSingleton k && allSingleton v && allSingletonPairs r
def allSingletonFields : List (Nat × Val) → Bool
  | [] => true
  | (_, v) :: r => allSingleton v && allSingletonFields r
end

/-- C20.singleton: whatever tree goes in, every MISSING that comes out of copy/deepcopy/pickle is the one object -/
theorem deepcopy_singleton :
    (∀ v, allSingleton (deepcopy v) = true) ∧ (∀ fs, allSingletonFields (deepcopyFields fs) = true) ∧
    (∀ kvs, allSingletonPairs (deepcopyPairs kvs) = true) ∧ (∀ xs, allSingletonList (deepcopyList xs) = true) := by
  apply deepcopy.mutual_induct
  all_goals first
    | (intros; simp [deepcopy, deepcopyList, deepcopyPairs, deepcopyFields, allSingleton, allSingletonList,
        allSingletonPairs, allSingletonFields, rebuildMissing, callType]; done)
    | (intros; simp_all [deepcopy, deepcopyList, deepcopyPairs, deepcopyFields, allSingleton, allSingletonList,
        allSingletonPairs, allSingletonFields, rebuildMissing, callType])

/-- the predicates agree with identity -/
def isMissing : Val → Bool | .missing 0 => true | _ => false
theorem isMissing_iff (v : Val) : isMissing v = true ↔ v = .missing 0 := by
  constructor
  · intro h; unfold isMissing at h; split at h <;> simp_all
  · intro h; subst h; rfl

/-- the pinned behaviour (`object.__reduce_ex__` → a fresh instance) violates it: witness -/
def rebuildMissingPinned (old : Nat) : Val := .missing (old + 1)
example : isMissing (rebuildMissingPinned 0) = false := by decide

end Ms
#print axioms Ms.deepcopy_singleton
