/-! Spike: cleanup procedures of `ScopeContext.__aenter__/__aexit__` (repaired shape) as data,
    with Python's exception-replacement semantics; restoration for every fault assignment (C02). -/
namespace Pr

inductive Exc where | cancel | user (id : Nat)
deriving DecidableEq, Repr

inductive Atom where
  | groupEnter | dispEnter | buildState | stateEnter | metricsEnter
  | dispExit | groupExit | metricsExit | stateExit | metricsEnterExit
deriving DecidableEq, Repr

structure Ctx where
  state : Nat
  metrics : Nat
  group : Nat
deriving DecidableEq, Repr

/-- machine: the task's context variables, the three saved tokens, the block's new values, an effect log -/
structure M where
  ctx : Ctx
  tok : Ctx          -- old values captured by the tokens
  new : Ctx          -- values this block installs
  log : List Atom := []
deriving Repr

inductive Proc where
  | atom (a : Atom)
  | seq (p q : Proc)
  | tryFinally (p q : Proc)
  | tryExcept (p h : Proc)       -- `except BaseException: <h>; raise`
  | skip
deriving Repr

abbrev Faults := Atom → Option Exc

def runAtom (φ : Faults) (a : Atom) (m : M) : M × Option Exc :=
  let m := { m with log := m.log ++ [a] }
  match a with
  | .groupEnter => ({ m with tok := { m.tok with group := m.ctx.group }, ctx := { m.ctx with group := m.new.group } }, none)
  | .stateEnter => ({ m with tok := { m.tok with state := m.ctx.state }, ctx := { m.ctx with state := m.new.state } }, none)
  | .metricsEnter => ({ m with tok := { m.tok with metrics := m.ctx.metrics }, ctx := { m.ctx with metrics := m.new.metrics } }, none)
  | .groupExit => ({ m with ctx := { m.ctx with group := m.tok.group } }, φ .groupExit)   -- token reset precedes the await
  | .stateExit => ({ m with ctx := { m.ctx with state := m.tok.state } }, none)
  | .metricsExit => ({ m with ctx := { m.ctx with metrics := m.tok.metrics } }, none)
  | .metricsEnterExit => (m, none)
  | .buildState => (m, none)
  | .dispEnter => (m, φ .dispEnter)
  | .dispExit => (m, φ .dispExit)

def run (φ : Faults) : Proc → M → M × Option Exc
  | .skip, m => (m, none)
  | .atom a, m => runAtom φ a m
  | .seq p q, m =>
    match run φ p m with
    | (m1, some e) => (m1, some e)
    | (m1, none) => run φ q m1
  | .tryFinally p q, m =>
    match run φ p m with
    | (m1, e1) =>
      match run φ q m1 with
      | (m2, some e2) => (m2, some e2)      -- exception in `finally` replaces the one in flight
      | (m2, none) => (m2, e1)
  | .tryExcept p h, m =>
    match run φ p m with
    | (m1, none) => (m1, none)
    | (m1, some e1) =>
      match run φ h m1 with
      | (m2, some e2) => (m2, some e2)
      | (m2, none) => (m2, some e1)          -- bare `raise`

open Proc Atom in
def aenter : Proc :=
  seq (atom groupEnter)
    (seq (tryExcept (seq (atom dispEnter) (atom buildState))
                    (tryFinally (atom groupExit) (atom metricsEnterExit)))
         (seq (atom stateEnter) (atom metricsEnter)))

open Proc Atom in
def aexit : Proc :=
  tryFinally (atom dispExit)
    (tryFinally (atom groupExit) (seq (atom metricsExit) (atom stateExit)))

/-- `async with scope: body` – body may end with any exception and may leave the context variables
    in an arbitrary state (nested blocks are not trusted here) -/
def block (φ : Faults) (body : Option Exc) (scramble : Ctx → Ctx) (m : M) : M × Option Exc :=
  match run φ aenter m with
  | (m1, some e) => (m1, some e)                       -- `__aexit__` is not called when `__aenter__` raises
  | (m1, none) =>
    let m2 := { m1 with ctx := scramble m1.ctx }
    match run φ aexit m2 with
    | (m3, some e) => (m3, some e)
    | (m3, none) => (m3, body)

/-- C02.restored for one async scope block: every fault assignment, every body outcome -/
theorem restored (φ : Faults) (body : Option Exc) (scramble : Ctx → Ctx) (m : M) :
    (block φ body scramble m).1.ctx = m.ctx := by
  unfold block aenter aexit
  simp only [run, runAtom]
  cases h1 : φ .dispEnter <;> cases h2 : φ .groupExit <;> cases h3 : φ .dispExit <;> simp [h1, h2, h3]

/-- C02.same_exception: when no cleanup step raises, the body's exception (or normal end) is what the caller sees -/
theorem same_exception (φ : Faults) (body : Option Exc) (scramble : Ctx → Ctx) (m : M)
    (h : ∀ a, φ a = none) : (block φ body scramble m).2 = body := by
  unfold block aenter aexit
  simp [run, runAtom, h]

/-- every cleanup step runs exactly once whenever the block was entered -/
theorem cleanup_all_run (φ : Faults) (body : Option Exc) (scramble : Ctx → Ctx) (m : M)
    (hin : φ .dispEnter = none) :
    let l := (block φ body scramble m).1.log.drop m.log.length
    l.count .dispExit = 1 ∧ l.count .groupExit = 1 ∧ l.count .metricsExit = 1 ∧ l.count .stateExit = 1 := by
  unfold block aenter aexit
  simp only [run, runAtom, hin]
  cases h2 : φ .groupExit <;> cases h3 : φ .dispExit <;> simp [h2, h3]

end Pr
#print axioms Pr.restored
