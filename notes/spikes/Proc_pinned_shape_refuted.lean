import Hw.Proc
namespace Pr
open Proc Atom in
def aexitPinned : Proc := seq (atom dispExit) (seq (atom groupExit) (seq (atom metricsExit) (atom stateExit)))
/-- the pinned shape does NOT restore: concrete witness -/
def φbad : Faults := fun a => if a = .dispExit then some (.user 1) else none
def m0 : M := { ctx := ⟨0,0,0⟩, tok := ⟨0,0,0⟩, new := ⟨1,1,1⟩ }
example : (match run φbad aenter m0 with
  | (m1, _) => (run φbad aexitPinned m1).1.ctx) ≠ m0.ctx := by decide
end Pr
