/-! Spike: AsyncQueue LTS (repaired code) and the accounting invariant (C17). -/
namespace Q

inductive Reason where | stop | err | cancel
deriving DecidableEq, Repr

inductive Waiter where
  | pending
  | res (e : Nat)
  | exc (r : Reason)
  | cancelled
deriving DecidableEq, Repr

inductive Consumer where | idle | scheduled | blocked
deriving DecidableEq, Repr

inductive Obs where
  | elem (e : Nat) | reason (r : Reason) | cancelled
deriving DecidableEq, Repr

structure St where
  buf : List Nat := []
  waiting : Option Waiter := none
  reason : Option Reason := none
  consumer : Consumer := .idle
  must : Bool := false               -- cancellation pending for the consumer task
  got : List Obs := []               -- what the consumer observed (oldest first)
  enq : List Nat := []               -- ghost: everything accepted by enqueue
deriving Repr

inductive Op where
  | enqueue (e : Nat) (es : List Nat)
  | finish (r : Reason)
  | recv
  | cancelRecv
  | run
deriving Repr

def delivered (s : St) : List Nat := s.got.filterMap (fun o => match o with | .elem e => some e | _ => none)
def inFlight (s : St) : List Nat := match s.waiting with | some (.res e) => [e] | _ => []

/-- one wake-up of the consumer task -/
def wake (s : St) : St :=
  match s.consumer with
  | .idle => s
  | .scheduled =>
    if s.must then { s with consumer := .idle, must := false }       -- cancelled before first step: body never runs
    else match s.buf with
      | e :: rest => { s with buf := rest, got := s.got ++ [.elem e], consumer := .idle }
      | [] => match s.reason with
        | some r => { s with got := s.got ++ [.reason r], consumer := .idle }
        | none => { s with waiting := some .pending, consumer := .blocked }
  | .blocked =>
    if s.must then
      let buf := match s.waiting with | some (.res e) => e :: s.buf | _ => s.buf   -- repaired: put the element back
      { s with buf := buf, got := s.got ++ [.cancelled], consumer := .idle, must := false, waiting := none }
    else match s.waiting with
      | some (.res e) => { s with got := s.got ++ [.elem e], consumer := .idle, waiting := none }
      | some (.exc r) => { s with got := s.got ++ [.reason r], consumer := .idle, waiting := none }
      | some .cancelled => { s with got := s.got ++ [.cancelled], consumer := .idle, waiting := none }
      | _ => s

def runnable (s : St) : Bool :=
  match s.consumer with
  | .idle => false
  | .scheduled => true
  | .blocked => s.must || (match s.waiting with | some .pending => false | none => false | _ => true)

def step (s : St) : Op → St
  | .enqueue e es =>
    if s.reason.isSome then s
    else
      let s := { s with enq := s.enq ++ (e :: es) }
      match s.waiting with
      | some .pending => { s with waiting := some (.res e), buf := s.buf ++ es }
      | _ => { s with buf := s.buf ++ (e :: es) }
  | .finish r =>
    if s.reason.isSome then s
    else match s.waiting with
      | some .pending => { s with reason := some r, waiting := some (.exc r) }
      | _ => { s with reason := some r }
  | .recv => if s.consumer = .idle then { s with consumer := .scheduled } else s
  | .cancelRecv =>
    match s.consumer with
    | .idle => s
    | .blocked => match s.waiting with
      | some .pending => { s with waiting := some .cancelled }
      | _ => { s with must := true }
    | .scheduled => { s with must := true }
  | .run => if runnable s then wake s else s

def runOps (s : St) (ops : List Op) : St := ops.foldl step s

/-- the accounting invariant -/
def Acc (s : St) : Prop := delivered s ++ inFlight s ++ s.buf = s.enq


theorem delivered_append (s : St) (o : Obs) :
    (s.got ++ [o]).filterMap (fun o => match o with | .elem e => some e | _ => none)
      = delivered s ++ (match o with | .elem e => [e] | _ => []) := by
  cases o <;> simp [delivered, List.filterMap_append]

/-- structural well-formedness: a waiter exists exactly while the consumer is blocked -/
def Wf (s : St) : Prop :=
  (s.consumer = .blocked ↔ s.waiting.isSome) ∧ (s.waiting = some .pending → s.buf = [])

theorem wake_inv (s : St) (h : Acc s) (hw : Wf s) : Acc (wake s) ∧ Wf (wake s) := by
  unfold wake
  obtain ⟨hw1, hw2⟩ := hw
  cases hc : s.consumer with
  | idle => simp [hc]; exact ⟨h, by simpa [Wf, hc] using hw1, hw2⟩
  | scheduled =>
    have hnone : s.waiting = none := by
      cases hwt : s.waiting with
      | none => rfl
      | some w => have := hw1.mpr (by simp [hwt]); simp [hc] at this
    by_cases hm : s.must
    · simp [hc, hm, Acc, Wf, delivered, inFlight, hnone] at *
      simpa [Acc, delivered, inFlight, hnone] using h
    · cases hb : s.buf with
      | cons e rest =>
        simp [hc, hm, hb, Acc, Wf, inFlight, hnone, delivered, List.filterMap_append] at *
        simpa [Acc, delivered, inFlight, hnone, hb] using h
      | nil =>
        cases hr : s.reason with
        | some r =>
          simp [hc, hm, hb, hr, Acc, Wf, inFlight, hnone, delivered, List.filterMap_append] at *
          simpa [Acc, delivered, inFlight, hnone, hb] using h
        | none =>
          simp [hc, hm, hb, hr, Acc, Wf, inFlight, delivered] at *
          simpa [Acc, delivered, inFlight, hnone, hb] using h
  | blocked =>
    have hsome : s.waiting.isSome := hw1.mp hc
    cases hwt : s.waiting with
    | none => simp [hwt] at hsome
    | some w =>
      by_cases hm : s.must
      · cases w <;>
          simp [hc, hm, hwt, Acc, Wf, inFlight, delivered, List.filterMap_append] at * <;>
          first
            | (simpa [Acc, delivered, inFlight, hwt] using h)
            | skip
      · cases w <;>
          simp [hc, hm, hwt, Acc, Wf, inFlight, delivered, List.filterMap_append] at * <;>
          first
            | (simpa [Acc, delivered, inFlight, hwt] using h)
            | (exact ⟨h, hw2⟩)
            | skip


theorem step_inv (s : St) (op : Op) (h : Acc s) (hw : Wf s) : Acc (step s op) ∧ Wf (step s op) := by
  cases op with
  | enqueue e es =>
    unfold step
    by_cases hr : s.reason.isSome
    · simp [hr]; exact ⟨h, hw⟩
    · obtain ⟨hw1, hw2⟩ := hw
      cases hwt : s.waiting with
      | none =>
        simp [hr, hwt, Acc, Wf, delivered, inFlight] at *
        refine ⟨?_, hw1⟩
        rw [← h]; simp
      | some w =>
        cases w with
        | pending =>
          have hb := hw2 hwt
          simp [hr, hwt, Acc, Wf, delivered, inFlight, hb] at *
          refine ⟨?_, hw1⟩
          rw [← h]
        | res x =>
          simp [hr, hwt, Acc, Wf, delivered, inFlight] at *
          refine ⟨?_, hw1⟩
          rw [← h]; simp
        | exc r =>
          simp [hr, hwt, Acc, Wf, delivered, inFlight] at *
          refine ⟨?_, hw1⟩
          rw [← h]; simp
        | cancelled =>
          simp [hr, hwt, Acc, Wf, delivered, inFlight] at *
          refine ⟨?_, hw1⟩
          rw [← h]; simp
  | finish r =>
    unfold step
    by_cases hr : s.reason.isSome
    · simp [hr]; exact ⟨h, hw⟩
    · obtain ⟨hw1, hw2⟩ := hw
      cases hwt : s.waiting with
      | none => simp [hr, hwt, Acc, Wf, delivered, inFlight] at *; exact ⟨h, hw1⟩
      | some w =>
        cases w <;> simp [hr, hwt, Acc, Wf, delivered, inFlight] at * <;>
          first | exact ⟨h, hw1⟩ | (exact ⟨by simpa [hw2] using h, hw1⟩) | skip
  | recv =>
    unfold step
    obtain ⟨hw1, hw2⟩ := hw
    by_cases hc : s.consumer = .idle
    · have hn : s.waiting = none := by
        cases hwt : s.waiting with
        | none => rfl
        | some w => have := hw1.mpr (by simp [hwt]); simp [hc] at this
      simp [hc, Acc, Wf, delivered, inFlight, hn] at *
      exact h
    · simp [hc]; exact ⟨h, hw1, hw2⟩
  | cancelRecv =>
    unfold step
    obtain ⟨hw1, hw2⟩ := hw
    cases hc : s.consumer with
    | idle => simp; exact ⟨h, by simpa [hc] using hw1, hw2⟩
    | scheduled =>
      simp [Acc, Wf, delivered, inFlight, hc] at *
      exact ⟨h, hw1, hw2⟩
    | blocked =>
      cases hwt : s.waiting with
      | none => simp [Acc, Wf, delivered, inFlight, hc, hwt] at *
      | some w =>
        cases w <;> simp [Acc, Wf, delivered, inFlight, hc, hwt] at * <;>
          first | exact h | (exact ⟨h, hw2⟩) | skip
  | run =>
    unfold step
    by_cases hrn : runnable s
    · simp [hrn]; exact wake_inv s h hw
    · simp [hrn]; exact ⟨h, hw⟩

theorem init_inv : Acc ({} : St) ∧ Wf ({} : St) := by
  simp [Acc, Wf, delivered, inFlight]

/-- C17.accounting: for every operation sequence nothing is lost, duplicated or reordered -/
theorem accounting (ops : List Op) :
    let s := runOps {} ops
    delivered s ++ inFlight s ++ s.buf = s.enq := by
  have : ∀ (ops : List Op) (s : St), Acc s ∧ Wf s → Acc (runOps s ops) ∧ Wf (runOps s ops) := by
    intro ops
    induction ops with
    | nil => intro s h; simpa [runOps] using h
    | cons op ops ih =>
      intro s h
      have := step_inv s op h.1 h.2
      simpa [runOps] using ih (step s op) this
  exact (this ops {} init_inv).1

end Q
#print axioms Q.accounting
