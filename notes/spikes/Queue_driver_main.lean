import Hw.Queue
open Q

def parseOp (tok : String) (nxt : Nat) : Option (Op × Nat) :=
  match tok with
  | "e1" => some (.enqueue nxt [], nxt + 1)
  | "e2" => some (.enqueue nxt [nxt + 1], nxt + 2)
  | "fin" => some (.finish .stop, nxt)
  | "finerr" => some (.finish .err, nxt)
  | "cancelq" => some (.finish .cancel, nxt)
  | "recv" => some (.recv, nxt)
  | "cancelrecv" => some (.cancelRecv, nxt)
  | "run" => some (.run, nxt)
  | _ => none

def showObs : Obs → String
  | .elem e => s!"elem:{e}"
  | .reason .stop => "stop"
  | .reason .err => "err"
  | .reason .cancel => "cancelled"
  | .cancelled => "cancelled"

/-- one case per line: space separated ops; output: observations, then whether the consumer is still blocked -/
def runCase (line : String) : String := Id.run do
  let toks := (line.splitOn " ").filter (· ≠ "")
  let mut s : St := {}
  let mut nxt := 0
  for tok in toks do
    match parseOp tok nxt with
    | some (op, n) => s := step s op; nxt := n
    | none => return "bad-op"
  -- final quiescence
  s := step s .run
  let obs := " ".intercalate (s.got.map showObs)
  let blocked := if s.consumer = .blocked then "blocked" else "free"
  return s!"{obs}|{blocked}"

partial def loop (h : IO.FS.Stream) : IO Unit := do
  let line ← h.getLine
  if line.isEmpty then return ()
  IO.println (runCase line.trimAscii.toString)
  loop h

def main : IO Unit := do loop (← IO.getStdin)
