/-! Spike: retry loop (mirrors `_wrap_sync/_wrap_async.wrapped`, repaired delay dispatch) and C14 theorems. -/
namespace Rt

inductive Outcome where
  | ok (v : Nat)
  | exc (cls : Nat) (id : Nat)      -- an `Exception` subclass instance (object identity `id`)
  | cancelled (id : Nat)            -- CancelledError (or subclass)
  | base (id : Nat)                 -- any other BaseException
deriving DecidableEq, Repr

inductive Delay where
  | none
  | const (d : Nat)                         -- int or float
  | fn (f : Nat → Nat → Nat)                -- (attempt, exception id) ↦ delay

structure Cfg where
  limit : Nat
  catching : List Nat
  isSub : Nat → Nat → Bool                  -- `isinstance(exc, cls)`
  delay : Delay

structure Result where
  calls : Nat
  final : Outcome
  sleeps : List Nat
deriving Repr

def retryable (cfg : Cfg) : Outcome → Bool
  | .exc c _ => cfg.catching.any (cfg.isSub c)
  | _ => false

def pause (cfg : Cfg) (attempt : Nat) (o : Outcome) : List Nat :=
  match cfg.delay, o with
  | .none, _ => []
  | .const d, _ => [d]
  | .fn f, .exc _ id => [f attempt id]
  | .fn _, _ => []

/-- `attempt` = number of retries already made = index of the call about to be made -/
def go (cfg : Cfg) (outs : Nat → Outcome) (attempt : Nat) (sleeps : List Nat) : Result :=
  let o := outs attempt
  if h : attempt < cfg.limit ∧ retryable cfg o then
    go cfg outs (attempt + 1) (sleeps ++ pause cfg (attempt + 1) o)
  else
    { calls := attempt + 1, final := o, sleeps := sleeps }
termination_by cfg.limit - attempt
decreasing_by omega

def run (cfg : Cfg) (outs : Nat → Outcome) : Result := go cfg outs 0 []

/-- spec side: first call index at which the loop must stop -/
def stopsAt (cfg : Cfg) (outs : Nat → Outcome) (n : Nat) : Prop :=
  (∀ i < n, retryable cfg (outs i) = true) ∧ n ≤ cfg.limit ∧ (n = cfg.limit ∨ retryable cfg (outs n) = false)

theorem go_spec (cfg : Cfg) (outs : Nat → Outcome) (attempt : Nat) (sleeps : List Nat)
    (hpre : ∀ i < attempt, retryable cfg (outs i) = true) (hle : attempt ≤ cfg.limit) :
    ∃ n, stopsAt cfg outs n ∧ attempt ≤ n ∧
      (go cfg outs attempt sleeps).calls = n + 1 ∧ (go cfg outs attempt sleeps).final = outs n ∧
      (go cfg outs attempt sleeps).sleeps =
        sleeps ++ ((List.range (n - attempt)).flatMap fun j => pause cfg (attempt + j + 1) (outs (attempt + j))) := by
  induction h : cfg.limit - attempt generalizing attempt sleeps with
  | zero =>
    have : attempt = cfg.limit := by omega
    unfold go
    have hno : ¬ (attempt < cfg.limit ∧ retryable cfg (outs attempt) = true) := by omega
    simp only [hno, ↓reduceDIte]
    exact ⟨attempt, ⟨hpre, hle, Or.inl this⟩, Nat.le_refl _, rfl, rfl, by simp⟩
  | succ k ih =>
    unfold go
    by_cases hc : attempt < cfg.limit ∧ retryable cfg (outs attempt) = true
    · simp only [hc, and_self, ↓reduceDIte]
      have hpre' : ∀ i < attempt + 1, retryable cfg (outs i) = true := by
        intro i hi
        by_cases hia : i = attempt
        · subst hia; exact hc.2
        · exact hpre i (by omega)
      obtain ⟨n, hs, hn, h1, h2, h3⟩ := ih (attempt + 1) (sleeps ++ pause cfg (attempt + 1) (outs attempt)) hpre' (by omega) (by omega)
      refine ⟨n, hs, by omega, h1, h2, ?_⟩
      rw [h3]
      have : n - attempt = (n - (attempt + 1)) + 1 := by omega
      rw [this, List.range_succ_eq_map, List.flatMap_cons, List.flatMap_map]
      simp [List.append_assoc, Nat.add_assoc, Nat.add_comm 1]
    · simp only [hc, ↓reduceDIte]
      refine ⟨attempt, ⟨hpre, hle, ?_⟩, Nat.le_refl _, rfl, rfl, by simp⟩
      by_cases hl : attempt < cfg.limit
      · right; simpa [hl] using hc
      · left; omega

/-- C14.calls / C14.result / C14.pauses in one statement -/
theorem run_spec (cfg : Cfg) (outs : Nat → Outcome) :
    ∃ n, stopsAt cfg outs n ∧ (run cfg outs).calls = n + 1 ∧ (run cfg outs).final = outs n ∧
      (run cfg outs).sleeps = (List.range n).flatMap fun j => pause cfg (j + 1) (outs j) := by
  obtain ⟨n, hs, _, h1, h2, h3⟩ := go_spec cfg outs 0 [] (by simp) (by simp)
  exact ⟨n, hs, h1, h2, by simpa [run] using h3⟩

/-- cancellation and non-`Exception` errors are never retried, whatever `catching` says -/
theorem never_retry_base (cfg : Cfg) (id : Nat) :
    retryable cfg (.cancelled id) = false ∧ retryable cfg (.base id) = false := by simp [retryable]

end Rt
#print axioms Rt.run_spec
