/-! Spike: `State.__eq__` with Python's operator dispatch (C04.eq_iff_same_class_and_fields). -/
namespace Se

structure Inst where
  cls : Nat
  fields : List (Nat × Nat)       -- attribute name ↦ value (values compared by an abstract equality below)
deriving Repr

variable (sub : Nat → Nat → Bool) (veq : Nat → Nat → Bool)

/-- `all(getattr(self, key) == getattr(other, key) for key in self.__ATTRIBUTES__)` -/
def fieldsEq (a b : Inst) : Bool :=
  a.fields.all (fun (k, v) => match b.fields.find? (·.1 = k) with | some (_, w) => veq v w | none => false)

/-- `State.__eq__(self, other)` -/
def eqMethod (self other : Inst) : Bool := sub other.cls self.cls && fieldsEq veq self other

/-- `a == b`: the reflected method of a proper-subclass right operand is tried first and its answer is final -/
def eqOp (a b : Inst) : Bool :=
  if b.cls ≠ a.cls ∧ sub b.cls a.cls = true then eqMethod sub veq b a else eqMethod sub veq a b

/-- C04: `==` holds exactly between instances of the *same* class whose attributes are equal –
    never across a base/derived or generic/specialised pair, in either operand order -/
theorem eqOp_iff (hrefl : ∀ c, sub c c = true) (hanti : ∀ c d, sub c d = true → sub d c = true → c = d)
    (a b : Inst) : eqOp sub veq a b = true ↔ a.cls = b.cls ∧ fieldsEq veq a b = true := by
  unfold eqOp
  by_cases h : b.cls ≠ a.cls ∧ sub b.cls a.cls = true
  · rw [if_pos h]
    unfold eqMethod
    constructor
    · intro hh
      simp only [Bool.and_eq_true] at hh
      exact absurd (hanti _ _ h.2 hh.1) h.1
    · intro hh; exact absurd hh.1.symm h.1
  · rw [if_neg h]
    simp only [eqMethod, Bool.and_eq_true]
    constructor
    · rintro ⟨h1, h2⟩
      refine ⟨?_, h2⟩
      by_cases hc : b.cls = a.cls
      · exact hc.symm
      · exact absurd ⟨hc, h1⟩ h
    · rintro ⟨h1, h2⟩
      exact ⟨by rw [h1]; exact hrefl _, h2⟩

/-- symmetric as soon as both instances carry the same attribute names (same class) and value equality is symmetric -/
theorem eqOp_false_across_classes (hrefl : ∀ c, sub c c = true) (hanti : ∀ c d, sub c d = true → sub d c = true → c = d)
    (a b : Inst) (h : a.cls ≠ b.cls) : eqOp sub veq a b = false ∧ eqOp sub veq b a = false := by
  constructor
  · cases hh : eqOp sub veq a b with
    | false => rfl
    | true => exact absurd ((eqOp_iff sub veq hrefl hanti a b).mp hh).1 h
  · cases hh : eqOp sub veq b a with
    | false => rfl
    | true => exact absurd ((eqOp_iff sub veq hrefl hanti b a).mp hh).1.symm h

end Se
#print axioms Se.eqOp_iff
