/-! Spike: `ctx.stream` as the pinned code has it – an async-generator frame runs in the context of whoever
    resumes it. Partial theorems that hold, and the refutation of the full C11 statement by witnesses. -/
namespace Sm

structure Ctx where
  state : Nat      -- stands for the visible ScopeState (compared by value)
  metrics : Nat    -- current metrics scope id (0 = none)
  group : Nat      -- current task group id (0 = none)
deriving DecidableEq, Repr

structure Gen where
  created : Ctx            -- context where `ctx.stream(...)` was called (snapshot; only the metrics parent uses it)
  scopeId : Nat            -- the pre-built nested scope (registered under `created.metrics`)
  items : List Nat         -- what the source generator will yield
  fails : Bool             -- ends with an exception instead of StopAsyncIteration
  saved : Option Ctx := none   -- tokens taken when the body first ran
  finished : Bool := false
  seen : List Nat := []        -- ghost: the state the generator body observed at each item
deriving Repr

inductive Step where
  | item (i : Nat)
  | stop
  | error
deriving DecidableEq, Repr

/-- first resumption: the stream's scope is entered *in the consumer's context* -/
def begin (g : Gen) (c : Ctx) : Gen × Ctx :=
  ({ g with saved := some c }, { c with metrics := g.scopeId, group := g.scopeId })

/-- run the body to its next yield / end; `s0` is the context saved by `begin` -/
def resume (g : Gen) (s0 c : Ctx) : Gen × Ctx × Step :=
  match g.items with
  | i :: rest => ({ g with items := rest, seen := g.seen ++ [c.state] }, c, .item i)
  | [] => ({ g with finished := true }, { c with metrics := s0.metrics, group := s0.group },
           if g.fails then .error else .stop)            -- leaving the `async with` resets the tokens

/-- `__anext__` called by a consumer whose context is `c`; returns the consumer's context afterwards -/
def next (g : Gen) (c : Ctx) : Gen × Ctx × Step :=
  if g.finished then (g, c, .stop)
  else match g.saved with
    | some s0 => resume g s0 c
    | none => resume (begin g c).1 c (begin g c).2

/-- consume a started stream to the end, threading the consumer's context through -/
def drainStarted (s0 : Ctx) : Nat → Gen → Ctx → List Nat → Gen × Ctx × List Nat × Step
  | 0, g, c, acc => (g, c, acc, .stop)
  | fuel + 1, g, c, acc =>
    match resume g s0 c with
    | (g', c', .item i) => drainStarted s0 fuel g' c' (acc ++ [i])
    | (g', c', s) => (g', c', acc, s)

/-- create-and-consume by one consumer -/
def drain (g : Gen) (c : Ctx) : Gen × Ctx × List Nat × Step :=
  drainStarted c (g.items.length + 1) (begin g c).1 (begin g c).2 []

theorem drainStarted_spec (s0 : Ctx) : ∀ (n : Nat) (g : Gen) (c : Ctx) (acc : List Nat), g.items.length < n →
    (drainStarted s0 n g c acc).2.2.1 = acc ++ g.items ∧
    (drainStarted s0 n g c acc).2.2.2 = (if g.fails then .error else .stop) ∧
    (drainStarted s0 n g c acc).2.1 = { c with metrics := s0.metrics, group := s0.group } ∧
    (drainStarted s0 n g c acc).1.seen = g.seen ++ g.items.map (fun _ => c.state)
  | 0, g, c, acc, h => by omega
  | n + 1, g, c, acc, h => by
    cases hl : g.items with
    | nil =>
      cases hf : g.fails <;> simp [drainStarted, resume, hl, hf]
    | cons i rest =>
      have ih := drainStarted_spec s0 n { g with items := rest, seen := g.seen ++ [c.state] } c (acc ++ [i])
        (by simp [hl] at h ⊢; omega)
      simp only [drainStarted, resume, hl]
      simpa [List.append_assoc] using ih

/-- C11.items_exact_partial: exactly the generator's items, in order, then its own ending -/
theorem items_exact (g : Gen) (c : Ctx) :
    (drain g c).2.2.1 = g.items ∧ (drain g c).2.2.2 = (if g.fails then .error else .stop) := by
  have := drainStarted_spec c (g.items.length + 1) (begin g c).1 (begin g c).2 [] (by simp [begin])
  refine ⟨by simpa [drain, begin] using this.1, ?_⟩
  simp only [drain, begin]; exact this.2.1

/-- C11.same_context_partial: consumed to the end by one consumer that does not otherwise touch its
    context, the consumer gets its state, metrics scope and task group back -/
theorem same_context (g : Gen) (c : Ctx) : (drain g c).2.1 = c := by
  have := (drainStarted_spec c (g.items.length + 1) (begin g c).1 (begin g c).2 [] (by simp [begin])).2.2.1
  simpa [drain, begin] using this

/-- what the body observes is the *consumer's* state, at every item -/
theorem body_sees_consumer_state (g : Gen) (c : Ctx) (h : g.seen = []) :
    (drain g c).1.seen = g.items.map (fun _ => c.state) := by
  have := (drainStarted_spec c (g.items.length + 1) (begin g c).1 (begin g c).2 [] (by simp [begin])).2.2.2
  simpa [drain, begin, h] using this

/-! ### the full statement is false of this model (and of the pinned code: the witnesses are replayed there) -/

def creator : Ctx := { state := 1, metrics := 10, group := 10 }
def consumer : Ctx := { state := 2, metrics := 20, group := 20 }
def g0 : Gen := { created := creator, scopeId := 30, items := [7, 8], fails := false }

/-- "the generator body observes the state that was current where the stream was created" -/
def BodySeesCreationState (g : Gen) (c : Ctx) : Prop :=
  ∀ s ∈ (drain g c).1.seen, s = g.created.state

/-- "the consumer's metrics scope and task group are unaffected between items" -/
def ConsumerUntouchedBetweenItems (g : Gen) (c : Ctx) : Prop :=
  (next g c).2.1 = c

theorem refuted_body_context : ¬ BodySeesCreationState g0 consumer := by unfold BodySeesCreationState; decide
theorem refuted_consumer_context : ¬ ConsumerUntouchedBetweenItems g0 consumer := by unfold ConsumerUntouchedBetweenItems; decide
/-- abandoned after the first item: the consumer is left inside the stream's scope -/
theorem refuted_abandoned : (next g0 consumer).2.1.metrics ≠ consumer.metrics := by decide

end Sm
#print axioms Sm.items_exact
#print axioms Sm.same_context
#print axioms Sm.refuted_body_context
