import Hw.ScopeState
/-! Spike: multi-task context model (state variable only): per-task frames, snapshot on spawn,
    the context invariant, C01 (lookup = innermost supplier) and C03 (frame property). -/
namespace Tk
open SS

structure Frame where
  block : Nat
  supplied : List Inst
  saved : Option (List Inst)        -- the token: value of the state variable before the block
deriving Repr

structure Task where
  inherited : Option (List (List Inst))   -- ghost: frames visible where the task was started (none = no context)
  state : Option (List Inst)              -- the task's StateContext variable (none = unset)
  frames : List Frame                     -- own entered blocks, innermost first
  done : Bool := false
deriving Repr

abbrev Sys := List Task

inductive Label where
  | enter (t b : Nat) (supplied : List Inst)
  | left (t b : Nat)
  | probe (t ty : Nat)
  | spawn (t : Nat)
  | finish (t : Nat)
deriving Repr

inductive Obs where
  | none
  | found (i : Option Inst)       -- `some i` = supplied instance; `none` = not supplied (default / MissingState path)
  | missingContext
deriving Repr, DecidableEq

def enterState (cur : Option (List Inst)) (supplied : List Inst) : List Inst :=
  match cur with
  | some s => updated s supplied       -- `cls._context.get().updated(state)`
  | none => mk supplied                -- LookupError fallback: `ScopeState(state)`

def step (s : Sys) : Label → Option (Sys × Obs)
  | .enter t b sup =>
    match s[t]? with
    | some tk => if tk.done then none else
        some (s.set t { tk with state := some (enterState tk.state sup),
                                frames := { block := b, supplied := sup, saved := tk.state } :: tk.frames }, .none)
    | none => none
  | .left t b =>
    match s[t]? with
    | some tk =>
      match tk.frames with
      | f :: rest => if f.block = b ∧ !tk.done then some (s.set t { tk with state := f.saved, frames := rest }, .none) else none
      | [] => none
    | none => none
  | .probe t ty =>
    match s[t]? with
    | some tk => if tk.done then none else
        match tk.state with
        | some st => some (s, .found (find st ty))
        | none => some (s, .missingContext)
    | none => none
  | .spawn t =>
    match s[t]? with
    | some tk => if tk.done then none else
        let inh := match tk.inherited, tk.frames with
          | none, [] => none
          | inh, fs => some ((inh.getD []) ++ (fs.reverse.map (·.supplied)))
        some (s ++ [{ inherited := inh, state := tk.state, frames := [] }], .none)
    | none => none
  | .finish t =>
    match s[t]? with
    | some tk => if tk.done ∨ tk.frames ≠ [] then none else some (s.set t { tk with done := true }, .none)
    | none => none

/-- the frames a task can see, outermost first; `none` = outside every scope -/
def visible (tk : Task) : Option (List (List Inst)) :=
  match tk.inherited, tk.frames with
  | none, [] => none
  | inh, fs => some ((inh.getD []) ++ (fs.reverse.map (·.supplied)))

/-- current value of the state variable is derived from the token chain -/
def Chain (inh : Option (List (List Inst))) : List Frame → Option (List Inst) → Prop
  | [], st => st = inh.map stateOf
  | f :: rest, st => st = some (enterState f.saved f.supplied) ∧ Chain inh rest f.saved

def visibleOf (inh : Option (List (List Inst))) (fs : List Frame) : Option (List (List Inst)) :=
  match inh, fs with
  | none, [] => none
  | inh, fs => some ((inh.getD []) ++ (fs.reverse.map (·.supplied)))

theorem mk_eq_updated_nil (sup : List Inst) : mk sup = updated [] sup := by
  unfold updated
  by_cases h : sup.isEmpty
  · have : sup = [] := by simpa using h
    subst this; simp [mk]
  · simp [h]

theorem stateOf_snoc (fs : List (List Inst)) (sup : List Inst) :
    stateOf (fs ++ [sup]) = updated (stateOf fs) sup := by simp [stateOf]

/-- C01/C02 backbone: the state variable always equals the fold of the visible frames -/
theorem chain_state (inh : Option (List (List Inst))) :
    ∀ (fs : List Frame) (st : Option (List Inst)), Chain inh fs st → st = (visibleOf inh fs).map stateOf
  | [], st, h => by
    simp only [Chain] at h
    cases inh <;> simp [h, visibleOf]
  | f :: rest, st, h => by
    obtain ⟨h1, h2⟩ := h
    have ih := chain_state inh rest f.saved h2
    rw [h1, ih]
    cases hv : visibleOf inh rest with
    | none =>
      -- no context below: `ScopeState(state)` fallback
      have hinh : inh = none ∧ rest = [] := by
        unfold visibleOf at hv
        cases inh <;> cases rest <;> simp_all
      obtain ⟨rfl, rfl⟩ := hinh
      simp [enterState, visibleOf, mk_eq_updated_nil, stateOf]
    | some vs =>
      have : visibleOf inh (f :: rest) = some (vs ++ [f.supplied]) := by
        unfold visibleOf at hv ⊢
        cases inh <;> cases rest <;> simp at hv ⊢ <;> (subst hv; simp)
      simp [this, enterState, stateOf_snoc]

structure TaskInv (tk : Task) : Prop where
  chain : Chain tk.inherited tk.frames tk.state

def Inv (s : Sys) : Prop := ∀ tk ∈ s, TaskInv tk

theorem mem_set {α} (l : List α) (i : Nat) (v x : α) (h : x ∈ l.set i v) : x = v ∨ x ∈ l := by
  rcases List.mem_or_eq_of_mem_set h with h | h
  · exact Or.inr h
  · exact Or.inl h

theorem step_inv (s : Sys) (l : Label) (s' : Sys) (o : Obs) (h : Inv s) (hs : step s l = some (s', o)) : Inv s' := by
  cases l with
  | enter t b sup =>
    simp only [step] at hs
    cases ht : s[t]? with
    | none => simp [ht] at hs
    | some tk =>
      simp only [ht] at hs
      split at hs
      · simp at hs
      · simp only [Option.some.injEq, Prod.mk.injEq] at hs
        obtain ⟨rfl, _⟩ := hs
        intro x hx
        rcases mem_set _ _ _ _ hx with rfl | hx
        · exact ⟨⟨rfl, (h tk (List.mem_of_getElem? ht)).chain⟩⟩
        · exact h x hx
  | left t b =>
    simp only [step] at hs
    cases ht : s[t]? with
    | none => simp [ht] at hs
    | some tk =>
      simp only [ht] at hs
      cases hf : tk.frames with
      | nil => simp [hf] at hs
      | cons f rest =>
        simp only [hf] at hs
        split at hs
        · simp only [Option.some.injEq, Prod.mk.injEq] at hs
          obtain ⟨rfl, _⟩ := hs
          intro x hx
          rcases mem_set _ _ _ _ hx with rfl | hx
          · have := (h tk (List.mem_of_getElem? ht)).chain
            rw [hf] at this
            exact ⟨this.2⟩
          · exact h x hx
        · simp at hs
  | probe t ty =>
    simp only [step] at hs
    cases ht : s[t]? with
    | none => simp [ht] at hs
    | some tk =>
      simp only [ht] at hs
      split at hs
      · simp at hs
      · split at hs <;> (simp only [Option.some.injEq, Prod.mk.injEq] at hs; obtain ⟨rfl, _⟩ := hs; exact h)
  | spawn t =>
    simp only [step] at hs
    cases ht : s[t]? with
    | none => simp [ht] at hs
    | some tk =>
      simp only [ht] at hs
      split at hs
      · simp at hs
      · simp only [Option.some.injEq, Prod.mk.injEq] at hs
        obtain ⟨rfl, _⟩ := hs
        intro x hx
        rcases List.mem_append.mp hx with hx | hx
        · exact h x hx
        · simp at hx; subst hx
          refine ⟨?_⟩
          simp only [Chain]
          have := chain_state tk.inherited tk.frames tk.state (h tk (List.mem_of_getElem? ht)).chain
          simpa [visibleOf] using this
  | finish t =>
    simp only [step] at hs
    cases ht : s[t]? with
    | none => simp [ht] at hs
    | some tk =>
      simp only [ht] at hs
      split at hs
      · simp at hs
      · simp only [Option.some.injEq, Prod.mk.injEq] at hs
        obtain ⟨rfl, _⟩ := hs
        intro x hx
        rcases mem_set _ _ _ _ hx with rfl | hx
        · exact ⟨(h tk (List.mem_of_getElem? ht)).chain⟩
        · exact h x hx

/-- C01: in every reachable state a lookup returns the instance supplied by the innermost visible frame -/
theorem lookup_innermost_task (s : Sys) (h : Inv s) (t ty : Nat) (s' : Sys) (o : Obs)
    (hs : step s (.probe t ty) = some (s', o)) :
    ∃ tk, s[t]? = some tk ∧
      o = match visibleOf tk.inherited tk.frames with
          | none => .missingContext
          | some vs => .found (vs.reverse.findSome? (fun f => lastOf f ty)) := by
  simp only [step] at hs
  cases ht : s[t]? with
  | none => simp [ht] at hs
  | some tk =>
    refine ⟨tk, rfl, ?_⟩
    simp only [ht] at hs
    have hc := chain_state tk.inherited tk.frames tk.state (h tk (List.mem_of_getElem? ht)).chain
    split at hs
    · simp at hs
    · cases hv : visibleOf tk.inherited tk.frames with
      | none =>
        rw [hv] at hc; simp at hc
        simp [hc] at hs; exact hs.2.symm
      | some vs =>
        rw [hv] at hc; simp at hc
        simp [hc] at hs
        rw [← hs.2, lookup_innermost]

/-- C03.frame: a step of task `t` never changes what any other existing task holds -/
theorem frame (s : Sys) (l : Label) (s' : Sys) (o : Obs) (hs : step s l = some (s', o))
    (t : Nat) (ht : match l with | .enter u _ _ | .left u _ | .probe u _ | .spawn u | .finish u => u ≠ t)
    (tk : Task) (hk : s[t]? = some tk) : s'[t]? = some tk := by
  cases l with
  | enter u b sup =>
    simp only [step] at hs
    cases hu : s[u]? with
    | none => simp [hu] at hs
    | some uk =>
      simp only [hu] at hs; split at hs
      · simp at hs
      · simp only [Option.some.injEq, Prod.mk.injEq] at hs; obtain ⟨rfl, _⟩ := hs
        rw [List.getElem?_set_ne (by simpa using ht)]; exact hk
  | left u b =>
    simp only [step] at hs
    cases hu : s[u]? with
    | none => simp [hu] at hs
    | some uk =>
      simp only [hu] at hs
      cases hf : uk.frames with
      | nil => simp [hf] at hs
      | cons f rest =>
        simp only [hf] at hs; split at hs
        · simp only [Option.some.injEq, Prod.mk.injEq] at hs; obtain ⟨rfl, _⟩ := hs
          rw [List.getElem?_set_ne (by simpa using ht)]; exact hk
        · simp at hs
  | probe u ty =>
    simp only [step] at hs
    cases hu : s[u]? with
    | none => simp [hu] at hs
    | some uk =>
      simp only [hu] at hs; split at hs
      · simp at hs
      · split at hs <;> (simp only [Option.some.injEq, Prod.mk.injEq] at hs; obtain ⟨rfl, _⟩ := hs; exact hk)
  | spawn u =>
    simp only [step] at hs
    cases hu : s[u]? with
    | none => simp [hu] at hs
    | some uk =>
      simp only [hu] at hs; split at hs
      · simp at hs
      · simp only [Option.some.injEq, Prod.mk.injEq] at hs; obtain ⟨rfl, _⟩ := hs
        have : t < s.length := (List.getElem?_eq_some_iff.mp hk).1
        rw [List.getElem?_append_left this]; exact hk
  | finish u =>
    simp only [step] at hs
    cases hu : s[u]? with
    | none => simp [hu] at hs
    | some uk =>
      simp only [hu] at hs; split at hs
      · simp at hs
      · simp only [Option.some.injEq, Prod.mk.injEq] at hs; obtain ⟨rfl, _⟩ := hs
        rw [List.getElem?_set_ne (by simpa using ht)]; exact hk

end Tk
#print axioms Tk.step_inv
#print axioms Tk.lookup_innermost_task
#print axioms Tk.frame
