/-! Spike: throttle model mirroring `_AsyncThrottle.__call__` (repaired) and the window theorem. -/
namespace Thr

structure St where
  entries : List Nat      -- recorded start times, oldest first (`_entries`)
  lockFree : Nat          -- instant at which the FIFO lock is next available (= last start)
deriving Repr

def cleanup (P now : Nat) (es : List Nat) : List Nat := es.dropWhile (fun e => e + P ≤ now)

/-- one call arriving at `arrival` (arrivals are processed in FIFO order by the lock) -/
def process (limit P : Nat) (s : St) (arrival : Nat) : St × Nat :=
  let now := max arrival s.lockFree
  let es := cleanup P now s.entries
  let start :=
    if limit ≤ es.length then
      match es with
      | e :: _ => max now (e + P)     -- `sleep(entries[0] + period - now)`; never negative after cleanup
      | [] => now
    else now
  ({ entries := es ++ [start], lockFree := start }, start)

def run (limit P : Nat) : St → List Nat → List Nat
  | _, [] => []
  | s, a :: as => let r := process limit P s a; r.2 :: run limit P r.1 as

def init : St := { entries := [], lockFree := 0 }

#eval run 1 10 init [0, 0, 0]
#eval run 2 10 init [0, 1, 2, 3, 25, 25, 25]

end Thr

namespace Thr

theorem cleanup_split (P now : Nat) (es : List Nat) :
    ∃ d, es = d ++ cleanup P now es ∧ (∀ e ∈ d, e + P ≤ now) ∧
      (∀ h ∈ (cleanup P now es).head?, ¬ (h + P ≤ now)) := by
  induction es with
  | nil => exact ⟨[], by simp [cleanup]⟩
  | cons x xs ih =>
    by_cases hx : x + P ≤ now
    · obtain ⟨d, h1, h2, h3⟩ := ih
      refine ⟨x :: d, ?_, ?_, ?_⟩
      · simp only [cleanup, List.dropWhile_cons, hx, decide_true, ↓reduceIte, List.cons_append, List.cons.injEq, true_and]
        exact h1
      · intro e he; simp at he; rcases he with rfl | he; exact hx; exact h2 e he
      · simpa [cleanup, List.dropWhile_cons, hx] using h3
    · refine ⟨[], ?_, by simp, ?_⟩
      · simp [cleanup, hx]
      · simp [cleanup, hx]; omega

structure Inv (limit P : Nat) (s : St) (hist : List Nat) : Prop where
  split : ∃ d, hist = d ++ s.entries ∧ ∀ e ∈ d, e + P ≤ s.lockFree
  sorted : hist.Pairwise (· ≤ ·)
  le_lock : ∀ e ∈ hist, e ≤ s.lockFree
  len : s.entries.length ≤ limit + 1
  full : s.entries.length = limit + 1 → ∀ h ∈ s.entries.head?, h + P ≤ s.lockFree
  window : ∀ i a b, hist[i]? = some a → hist[i + limit]? = some b → a + P ≤ b

theorem inv_init (limit P : Nat) : Inv limit P init [] := by
  refine ⟨⟨[], by simp [init]⟩, by simp, by simp, by simp [init], by simp [init], by simp⟩

end Thr

namespace Thr

def startOf (limit P now : Nat) (es : List Nat) : Nat :=
  if limit ≤ es.length then
    match es with
    | e :: _ => max now (e + P)
    | [] => now
  else now

theorem process_eq (limit P : Nat) (s : St) (a : Nat) :
    process limit P s a =
      let now := max a s.lockFree
      let es := cleanup P now s.entries
      ({ entries := es ++ [startOf limit P now es], lockFree := startOf limit P now es },
        startOf limit P now es) := by
  simp only [process, startOf]

theorem getElem?_append_single {l : List Nat} {x : Nat} {i : Nat} {v : Nat}
    (h : (l ++ [x])[i]? = some v) : (i < l.length ∧ l[i]? = some v) ∨ (i = l.length ∧ v = x) := by
  by_cases hi : i < l.length
  · left; exact ⟨hi, by rwa [List.getElem?_append_left hi] at h⟩
  · right
    have hi' : l.length ≤ i := by omega
    rw [List.getElem?_append_right hi'] at h
    cases hk : i - l.length with
    | zero =>
      rw [hk] at h; simp at h
      exact ⟨by omega, h.symm⟩
    | succ k => rw [hk] at h; simp at h

theorem step_inv (limit P : Nat) (hl : 0 < limit) (s : St) (hist : List Nat) (a : Nat)
    (h : Inv limit P s hist) :
    Inv limit P (process limit P s a).1 (hist ++ [(process limit P s a).2]) ∧
      a ≤ (process limit P s a).2 := by
  obtain ⟨⟨d, hsplit, hd⟩, hsorted, hle, hlen, hfull, hwin⟩ := h
  rw [process_eq]
  simp only
  obtain ⟨d2, hes, hd2, hhead⟩ := cleanup_split P (max a s.lockFree) s.entries
  generalize hnow : max a s.lockFree = now at *
  generalize hesdef : cleanup P now s.entries = es at *
  have hnow_a : a ≤ now := by omega
  have hnow_l : s.lockFree ≤ now := by omega
  have hes_len : es.length ≤ limit := by
    have : s.entries.length = d2.length + es.length := by rw [hes]; simp
    by_cases hfl : s.entries.length = limit + 1
    · have hh := hfull hfl
      cases hent : s.entries with
      | nil => simp [hent] at hfl
      | cons x xs =>
        have hx : x + P ≤ now := by
          have := hh x (by simp [hent]); omega
        cases d2 with
        | nil =>
          simp at hes
          have : es.head? = some x := by rw [← hes, hent]; rfl
          exact absurd hx (hhead x (by simp [this]))
        | cons y ys => simp at this; omega
    · omega
  generalize hst : startOf limit P now es = st
  have hst_now : now ≤ st := by
    rw [← hst]; unfold startOf; split
    · split <;> omega
    · omega
  -- new history splits as (d ++ d2) ++ (es ++ [st])
  have hsplit' : hist ++ [st] = (d ++ d2) ++ (es ++ [st]) := by
    rw [hsplit, hes]; simp
  have hdropped : ∀ e ∈ d ++ d2, e + P ≤ st := by
    intro e he
    rcases List.mem_append.mp he with he | he
    · have := hd e he; omega
    · have := hd2 e he; omega
  have hle' : ∀ e ∈ hist ++ [st], e ≤ st := by
    intro e he
    rcases List.mem_append.mp he with he | he
    · have := hle e he; omega
    · simp at he; omega
  refine ⟨⟨⟨d ++ d2, hsplit', hdropped⟩, ?_, hle', ?_, ?_, ?_⟩, by omega⟩
  · -- sorted
    rw [List.pairwise_append]
    refine ⟨hsorted, by simp, ?_⟩
    intro x hx y hy
    simp at hy; subst hy
    have := hle x hx; omega
  · simp; omega
  · -- full ⇒ head expired w.r.t. new lock time
    intro hfull' h0 hh0
    simp at hfull'
    have hlen_es : es.length = limit := by omega
    cases es with
    | nil => simp at hlen_es; omega
    | cons e0 rest =>
      simp at hh0; subst hh0
      rw [← hst]; unfold startOf
      simp [hlen_es]
      omega
  · -- window
    intro i x y hx hy
    rcases getElem?_append_single hy with ⟨hlt, hy'⟩ | ⟨hieq, hyeq⟩
    · -- both inside old history
      have hx' : hist[i]? = some x := by
        have : i < hist.length := by omega
        rwa [List.getElem?_append_left this] at hx
      exact hwin i x y hx' hy'
    · -- y is the new start: x = hist[i] with i + limit = hist.length
      subst hyeq
      have hi : i < hist.length := by omega
      have hx' : hist[i]? = some x := by rwa [List.getElem?_append_left hi] at hx
      -- position of x relative to the dropped prefix
      have hlen_hist : hist.length = (d ++ d2).length + es.length := by
        have := congrArg List.length hsplit'
        simp at this; simp; omega
      by_cases hdrop : i < (d ++ d2).length
      · -- x was dropped: expired already
        have hh : hist = (d ++ d2) ++ es := by rw [hsplit, hes]; simp
        have : (d ++ d2)[i]? = some x := by
          rw [hh, List.getElem?_append_left hdrop] at hx'; exact hx'
        have hxmem : x ∈ d ++ d2 := List.mem_of_getElem? this
        exact hdropped x hxmem
      · -- x is the head of es and es is full
        have hlen_es : es.length = limit := by omega
        have hi0 : i = (d ++ d2).length := by omega
        have hh : hist = (d ++ d2) ++ es := by rw [hsplit, hes]; simp
        cases es with
        | nil => simp at hlen_es; omega
        | cons e0 rest =>
          have : x = e0 := by
            rw [hh, hi0, List.getElem?_append_right (Nat.le_refl _)] at hx'
            simp at hx'; exact hx'.symm
          subst this
          rw [← hst]; unfold startOf
          simp [hlen_es]
          omega

end Thr

namespace Thr

theorem run_inv (limit P : Nat) (hl : 0 < limit) :
    ∀ (as : List Nat) (s : St) (hist : List Nat), Inv limit P s hist →
      ∃ s', Inv limit P s' (hist ++ run limit P s as) := by
  intro as
  induction as with
  | nil => intro s hist h; exact ⟨s, by simpa [run] using h⟩
  | cons a as ih =>
    intro s hist h
    have hs := (step_inv limit P hl s hist a h).1
    obtain ⟨s', hs'⟩ := ih (process limit P s a).1 _ hs
    refine ⟨s', ?_⟩
    simpa [run, List.append_assoc] using hs'

/-- C15.window: any `limit + 1` consecutive starts span at least one period. -/
theorem window (limit P : Nat) (hl : 0 < limit) (arrivals : List Nat) (i a b : Nat)
    (ha : (run limit P init arrivals)[i]? = some a)
    (hb : (run limit P init arrivals)[i + limit]? = some b) : a + P ≤ b := by
  obtain ⟨s', h⟩ := run_inv limit P hl arrivals init [] (inv_init limit P)
  simp only [List.nil_append] at h
  exact h.window i a b ha hb

/-- starts are in arrival order (non-decreasing) -/
theorem starts_sorted (limit P : Nat) (hl : 0 < limit) (arrivals : List Nat) :
    (run limit P init arrivals).Pairwise (· ≤ ·) := by
  obtain ⟨s', h⟩ := run_inv limit P hl arrivals init [] (inv_init limit P)
  simpa using h.sorted

example : run 2 10 init [0, 1, 2, 3] = [0, 1, 10, 11] := by decide

end Thr
#print axioms Thr.window
#print axioms Thr.starts_sorted
