namespace Tmo

inductive Out where | val | exc | baseExc | selfCancel
deriving DecidableEq, Repr

inductive Fut where | pending | res | excUser | excBase | timeout | cancelled
deriving DecidableEq, Repr

inductive Tsk where
  | running (cancelReq : Bool) (ignored : Bool)
  | done (o : Out)
  | doneCancelled
deriving DecidableEq, Repr

inductive Tmr where | armed | fired | cancelled
deriving DecidableEq, Repr

inductive Caller where
  | waiting (mustCancel : Bool)
  | got (f : Fut)          -- outcome delivered (copy of future state)
  | gotCancelled
deriving DecidableEq, Repr

structure S where
  kind : Out            -- how the function ends if left alone
  ignoresFirst : Bool   -- swallows the first cancellation
  fut : Fut
  tsk : Tsk
  tmr : Tmr
  qCompletion : Bool    -- on_completion scheduled, not yet run
  qResult : Bool        -- on_result scheduled, not yet run
  caller : Caller
deriving DecidableEq, Repr

inductive Lbl where
  | taskEnds | taskSeesCancel | runCompletion | timerFires | runResult | callerCancel | callerWakes
deriving DecidableEq, Repr

def init (k : Out) (ig : Bool) : S :=
  { kind := k, ignoresFirst := ig, fut := .pending, tsk := .running false false, tmr := .armed,
    qCompletion := false, qResult := false, caller := .waiting false }

def futOfOut : Out → Fut
  | .val => .res | .exc => .excUser | .baseExc => .excBase | .selfCancel => .cancelled

/-- completing the future schedules on_result -/
def setFut (s : S) (f : Fut) : S := { s with fut := f, qResult := true }

def step (s : S) : Lbl → Option S
  | .taskEnds => match s.tsk with
      | .running false _ => some { s with tsk := (if s.kind = .selfCancel then .doneCancelled else .done s.kind), qCompletion := true }
      | _ => none
  | .taskSeesCancel => match s.tsk with
      | .running true ig =>
          if s.ignoresFirst && !ig then some { s with tsk := .running false true }
          else some { s with tsk := .doneCancelled, qCompletion := true }
      | _ => none
  | .runCompletion =>
      if s.qCompletion then
        let s := { s with qCompletion := false, tmr := (if s.tmr = .armed then .cancelled else s.tmr) }
        if s.fut ≠ .pending then some s
        else match s.tsk with
          | .doneCancelled => some (setFut s .cancelled)
          | .done o => some (setFut s (futOfOut o))
          | .running _ _ => none
      else none
  | .timerFires =>
      if s.tmr = .armed then
        let s := { s with tmr := .fired }
        if s.fut ≠ .pending then some s else some (setFut s .timeout)
      else none
  | .runResult =>
      if s.qResult then
        let s := { s with qResult := false }
        match s.tsk with
        | .running _ ig => some { s with tsk := .running true ig }
        | _ => some s
      else none
  | .callerCancel => match s.caller with
      | .waiting _ =>
          if s.fut = .pending then some { setFut s .cancelled with caller := .gotCancelled }
          else some { s with caller := .waiting true }
      | _ => none
  | .callerWakes => match s.caller with
      | .waiting mc =>
          if s.fut = .pending then none
          else if mc then some { s with caller := .gotCancelled }
          else some { s with caller := (if s.fut = .cancelled then .gotCancelled else .got s.fut) }
      | _ => none

def labels : List Lbl := [.taskEnds, .taskSeesCancel, .runCompletion, .timerFires, .runResult, .callerCancel, .callerWakes]

def succs (s : S) : List S := labels.filterMap (step s)

def closure : Nat → List S → List S → List S
  | 0, seen, _ => seen
  | _, seen, [] => seen
  | n+1, seen, x :: todo =>
      let new := (succs x).filter (fun y => !(seen.contains y) && !(todo.contains y))
      closure n (seen ++ new.eraseDups) (todo ++ new.eraseDups)

def inits : List S := [Out.val, .exc, .baseExc, .selfCancel].flatMap (fun k => [init k false, init k true])
def reach : List S := closure 100000 inits inits

#eval reach.length

/-- closedness, checked by kernel evaluation -/
def closed (r : List S) : Bool := r.all (fun s => (succs s).all (fun t => r.contains t))

-- caller, once decided, corresponds to a sensible outcome; and when caller has outcome & no pending work, timer not armed & task done or cancel requested
def quiescent (s : S) : Bool := (succs s).isEmpty
def good (s : S) : Bool :=
  if quiescent s then
    (match s.caller with | .waiting _ => false | _ => true) &&
    s.tmr != .armed &&
    (match s.tsk with | .running c _ => c | _ => true)   -- only a task that ignored cancellation may remain, with a request pending?? 
  else true

#eval reach.filter (fun s => !good s) |>.length
#eval (reach.filter (fun s => !good s)).take 3

end Tmo
