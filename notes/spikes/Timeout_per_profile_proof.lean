import Hw.Timeout
/-! Spike: C16 as a proof over the finite timeout LTS: reachable-state table per function profile,
    closedness by kernel evaluation, lifting lemma, and the outcome/cleanup predicates decided on the table. -/
namespace Tmo

inductive Reach (s0 : S) : S → Prop where
  | init : Reach s0 s0
  | step {s s' l} : Reach s0 s → step s l = some s' → Reach s0 s'

def table (s0 : S) : List S := closure 100000 [s0] [s0]

theorem mem_succs {s s' : S} {l : Lbl} (h : step s l = some s') : s' ∈ succs s := by
  unfold succs
  rw [List.mem_filterMap]
  exact ⟨l, by cases l <;> simp [labels], h⟩

/-- lifting lemma: a closed table containing the initial state contains every reachable state -/
theorem reach_mem (s0 : S) (tbl : List S) (h0 : s0 ∈ tbl) (hc : closed tbl = true) :
    ∀ s, Reach s0 s → s ∈ tbl := by
  intro s hr
  induction hr with
  | init => exact h0
  | step _ hs ih =>
    unfold closed at hc
    rw [List.all_eq_true] at hc
    have := hc _ ih
    rw [List.all_eq_true] at this
    have := this _ (mem_succs hs)
    simpa using this

/-- the caller-side predicate: at quiescence the caller has an outcome, the timer is not armed,
    and the function is done or has a cancellation request pending -/
def quietGood (s : S) : Bool := good s

/-- the caller's outcome is the one the first event dictates (checked on every state where the caller has its outcome) -/
def outcomeOk (s : S) : Bool :=
  match s.caller with
  | .got .timeout => s.tmr == .fired                                  -- only the deadline produces TimeoutError
  | .got .res => s.kind == .val && (match s.tsk with | .done .val => true | _ => false)
  | .got .excUser => s.kind == .exc
  | .got .excBase => s.kind == .baseExc
  | _ => true

end Tmo

namespace Tmo
-- one profile: value-returning function that honours cancellation
def s0 : S := init .val false
#eval (table s0).length
set_option maxRecDepth 100000 in
theorem closed_val : closed (table s0) = true := by decide +kernel
set_option maxRecDepth 100000 in
theorem good_val : (table s0).all (fun s => quietGood s && outcomeOk s) = true := by decide +kernel
theorem mem_val : s0 ∈ table s0 := by decide +kernel

/-- C16 for this profile, every schedule: -/
theorem C16_val (s : S) (h : Reach s0 s) : quietGood s = true ∧ outcomeOk s = true := by
  have hm := reach_mem s0 (table s0) mem_val closed_val s h
  have := good_val
  rw [List.all_eq_true] at this
  simpa using this s hm
end Tmo
#print axioms Tmo.C16_val
