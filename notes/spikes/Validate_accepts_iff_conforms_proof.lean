/-! Spike: the full validator vocabulary (C05/C04 core): `validate` mirrors the validator factories,
    `Conforms` is the independent spec; acceptance ⇔ conformance, and re-validation is the identity. -/
namespace Vd

/-- literal-capable primitives (decidable equality, "equal and of the same type") -/
inductive Prim where
  | none | bool (b : Bool) | int (i : Int) | str (s : String) | bytes (s : String) | enumv (cls idx : Nat)
deriving DecidableEq, Repr

inductive Val where
  | prim (p : Prim)
  | missing
  | float (tok : Nat)
  | list (xs : List Val) | tuple (xs : List Val)
  | set (xs : List Val) | fset (xs : List Val)
  | dict (kvs : List (Val × Val)) | mproxy (kvs : List (Val × Val))
  | inst (cls id : Nat)            -- State / nominal object: class id + identity
  | callable (id : Nat)
deriving Repr, Inhabited

inductive Ann where
  | any | none | missing | callable
  | nominal (cls : Nat)
  | literal (ls : List Prim)
  | seq (a : Ann) | tupleVar (a : Ann) | set (a : Ann)
  | map (k v : Ann)
  | tupleFixed (as : List Ann)
  | union (as : List Ann)
deriving Repr, Inhabited

inductive Err where | type | value | group
deriving Repr, DecidableEq

/-- runtime `isinstance(v, cls)`; builtin class ids: 1 bool, 2 int, 3 float, 4 str, 5 bytes; `sub c d` = c is a subclass of d -/
def isInst (sub : Nat → Nat → Bool) (cls : Nat) : Val → Bool
  | .prim (.bool _) => cls == 1 || cls == 2
  | .prim (.int _) => cls == 2
  | .float _ => cls == 3
  | .prim (.str _) => cls == 4
  | .prim (.bytes _) => cls == 5
  | .prim (.enumv c _) => sub c cls
  | .inst c _ => sub c cls
  | _ => false

def seqElems : Val → Option (List Val)
  | .list xs => some xs | .tuple xs => some xs | _ => none
def setElems : Val → Option (List Val)
  | .set xs => some xs | .fset xs => some xs | _ => none
def mapElems : Val → Option (List (Val × Val))
  | .dict xs => some xs | .mproxy xs => some xs | _ => none
def isCallable : Val → Bool
  | .callable _ => true | _ => false

mutual
def validate (sub : Nat → Nat → Bool) : Ann → Val → Except Err Val
  | .any, v => .ok v
  | .none, v => match v with | .prim .none => .ok v | _ => .error .type
  | .missing, v => match v with | .missing => .ok v | _ => .error .type
  | .callable, v => if isCallable v then .ok v else .error .type
  | .nominal c, v => if isInst sub c v then .ok v else .error .type
  | .literal ls, v => match v with
      | .prim p => if p ∈ ls then .ok v else .error .value
      | _ => .error .value
  | .seq a, v => match seqElems v with
      | some xs => (validateAll sub a xs).map .tuple
      | none => .error .type
  | .tupleVar a, v => match seqElems v with
      | some xs => (validateAll sub a xs).map .tuple
      | none => .error .type
  | .set a, v => match setElems v with
      | some xs => (validateAll sub a xs).map .fset
      | none => .error .type
  | .map k w, v => match mapElems v with
      | some kvs => (validateKVs sub k w kvs).map .mproxy
      | none => .error .type
  | .tupleFixed as, v => match seqElems v with
      | some xs => if xs.length != as.length then .error .value else (validateZip sub as xs).map .tuple
      | none => .error .type
  | .union as, v => validateFirst sub as v
termination_by a v => (2 * sizeOf a, sizeOf v)
def validateAll (sub : Nat → Nat → Bool) (a : Ann) : List Val → Except Err (List Val)
  | [] => .ok []
  | x :: xs => match validate sub a x with
      | .error e => .error e
      | .ok y => match validateAll sub a xs with
        | .error e => .error e
        | .ok ys => .ok (y :: ys)
termination_by xs => (2 * sizeOf a + 1, sizeOf xs)
def validateKVs (sub : Nat → Nat → Bool) (k w : Ann) : List (Val × Val) → Except Err (List (Val × Val))
  | [] => .ok []
  | (x, y) :: r => match validate sub k x with
      | .error e => .error e
      | .ok x' => match validate sub w y with
        | .error e => .error e
        | .ok y' => match validateKVs sub k w r with
          | .error e => .error e
          | .ok r' => .ok ((x', y') :: r')
termination_by kvs => (2 * (sizeOf k + sizeOf w) + 1, sizeOf kvs)
def validateZip (sub : Nat → Nat → Bool) : List Ann → List Val → Except Err (List Val)
  | a :: as, x :: xs => match validate sub a x with
      | .error e => .error e
      | .ok y => match validateZip sub as xs with
        | .error e => .error e
        | .ok ys => .ok (y :: ys)
  | _, _ => .ok []
termination_by as xs => (2 * sizeOf as + 1, sizeOf xs)
def validateFirst (sub : Nat → Nat → Bool) : List Ann → Val → Except Err Val
  | [], _ => .error .group
  | a :: as, v => match validate sub a v with
      | .ok w => .ok w
      | .error _ => validateFirst sub as v
termination_by as v => (2 * sizeOf as + 1, sizeOf v)
end


/-- the independent conformance spec (read up to the documented immutable conversion) -/
inductive Conforms (sub : Nat → Nat → Bool) : Ann → Val → Prop where
  | any (v) : Conforms sub .any v
  | none : Conforms sub .none (.prim .none)
  | missing : Conforms sub .missing .missing
  | callable {v} : isCallable v = true → Conforms sub .callable v
  | nominal {c v} : isInst sub c v = true → Conforms sub (.nominal c) v
  | literal {ls p} : p ∈ ls → Conforms sub (.literal ls) (.prim p)
  | seq {a v xs} : seqElems v = some xs → (∀ x ∈ xs, Conforms sub a x) → Conforms sub (.seq a) v
  | tupleVar {a v xs} : seqElems v = some xs → (∀ x ∈ xs, Conforms sub a x) → Conforms sub (.tupleVar a) v
  | set {a v xs} : setElems v = some xs → (∀ x ∈ xs, Conforms sub a x) → Conforms sub (.set a) v
  | map {k w v kvs} : mapElems v = some kvs → (∀ p ∈ kvs, Conforms sub k p.1) → (∀ p ∈ kvs, Conforms sub w p.2) →
      Conforms sub (.map k w) v
  | tupleFixed {as v xs} : seqElems v = some xs → as.length = xs.length →
      (∀ p ∈ as.zip xs, Conforms sub p.1 p.2) → Conforms sub (.tupleFixed as) v
  | union {as v a} : a ∈ as → Conforms sub a v → Conforms sub (.union as) v


namespace Conforms
variable {sub : Nat → Nat → Bool}
theorem none_inv {v} (h : Conforms sub .none v) : v = .prim .none := by cases h; rfl
theorem missing_inv {v} (h : Conforms sub .missing v) : v = .missing := by cases h; rfl
theorem callable_inv {v} (h : Conforms sub .callable v) : isCallable v = true := by cases h; assumption
theorem nominal_inv {c v} (h : Conforms sub (.nominal c) v) : isInst sub c v = true := by cases h; assumption
theorem literal_inv {ls v} (h : Conforms sub (.literal ls) v) : ∃ p, v = .prim p ∧ p ∈ ls := by
  cases h; exact ⟨_, rfl, by assumption⟩
theorem seq_inv {a v} (h : Conforms sub (.seq a) v) : ∃ xs, seqElems v = some xs ∧ ∀ x ∈ xs, Conforms sub a x := by
  cases h; exact ⟨_, by assumption, by assumption⟩
theorem tupleVar_inv {a v} (h : Conforms sub (.tupleVar a) v) : ∃ xs, seqElems v = some xs ∧ ∀ x ∈ xs, Conforms sub a x := by
  cases h; exact ⟨_, by assumption, by assumption⟩
theorem set_inv {a v} (h : Conforms sub (.set a) v) : ∃ xs, setElems v = some xs ∧ ∀ x ∈ xs, Conforms sub a x := by
  cases h; exact ⟨_, by assumption, by assumption⟩
theorem map_inv {k w v} (h : Conforms sub (.map k w) v) :
    ∃ kvs, mapElems v = some kvs ∧ (∀ p ∈ kvs, Conforms sub k p.1) ∧ (∀ p ∈ kvs, Conforms sub w p.2) := by
  cases h; exact ⟨_, by assumption, by assumption, by assumption⟩
theorem tupleFixed_inv {as v} (h : Conforms sub (.tupleFixed as) v) :
    ∃ xs, seqElems v = some xs ∧ as.length = xs.length ∧ ∀ p ∈ as.zip xs, Conforms sub p.1 p.2 := by
  cases h; exact ⟨_, by assumption, by assumption, by assumption⟩
theorem union_inv {as v} (h : Conforms sub (.union as) v) : ∃ a ∈ as, Conforms sub a v := by
  cases h; exact ⟨_, by assumption, by assumption⟩
end Conforms

theorem map_ok {α β} {x : Except Err α} {f : α → β} {w : β} (h : x.map f = .ok w) : ∃ y, x = .ok y ∧ f y = w := by
  cases x with
  | error e => simp [Except.map] at h
  | ok y => exact ⟨y, rfl, by simpa [Except.map] using h⟩

/-- acceptance ⇔ conformance, for all five mutually recursive validators at once -/
theorem accepts_iff :
    (∀ a v, (∃ w, validate sub a v = .ok w) ↔ Conforms sub a v) ∧
    (∀ as v, (∃ w, validateFirst sub as v = .ok w) ↔ ∃ a ∈ as, Conforms sub a v) ∧
    (∀ as xs, (∃ ys, validateZip sub as xs = .ok ys) ↔ ∀ p ∈ as.zip xs, Conforms sub p.1 p.2) ∧
    (∀ k w kvs, (∃ r, validateKVs sub k w kvs = .ok r) ↔
        (∀ p ∈ kvs, Conforms sub k p.1) ∧ (∀ p ∈ kvs, Conforms sub w p.2)) ∧
    (∀ a xs, (∃ ys, validateAll sub a xs = .ok ys) ↔ ∀ x ∈ xs, Conforms sub a x) := by
  apply validate.mutual_induct
  -- any / none / missing / callable / nominal / literal
  case case1 => intro v; exact ⟨fun _ => .any v, fun _ => ⟨v, by simp [validate]⟩⟩
  case case2 => exact ⟨fun _ => .none, fun _ => ⟨.prim .none, by simp [validate]⟩⟩
  case case3 =>
    intro v hv; constructor
    · rintro ⟨w, h⟩; unfold validate at h; split at h <;> simp_all
    · intro h; exact absurd h.none_inv hv
  case case4 => exact ⟨fun _ => .missing, fun _ => ⟨.missing, by simp [validate]⟩⟩
  case case5 =>
    intro v hv; constructor
    · rintro ⟨w, h⟩; unfold validate at h; split at h <;> simp_all
    · intro h; exact absurd h.missing_inv hv
  case case6 => intro v hc; exact ⟨fun _ => .callable hc, fun _ => ⟨v, by simp [validate, hc]⟩⟩
  case case7 =>
    intro v hc; constructor
    · rintro ⟨w, h⟩; simp [validate, hc] at h
    · intro h; exact absurd h.callable_inv hc
  case case8 => intro c v hi; exact ⟨fun _ => .nominal hi, fun _ => ⟨v, by simp [validate, hi]⟩⟩
  case case9 =>
    intro c v hi; constructor
    · rintro ⟨w, h⟩; simp [validate, hi] at h
    · intro h; exact absurd h.nominal_inv hi
  case case10 => intro ls p hp; exact ⟨fun _ => .literal hp, fun _ => ⟨.prim p, by simp [validate, hp]⟩⟩
  case case11 =>
    intro ls p hp; constructor
    · rintro ⟨w, h⟩; simp [validate, hp] at h
    · intro h; obtain ⟨q, hq, hm⟩ := h.literal_inv; cases hq; exact absurd hm hp
  case case12 =>
    intro ls v hv; constructor
    · rintro ⟨w, h⟩; unfold validate at h; split at h <;> simp_all
    · intro h; obtain ⟨q, hq, _⟩ := h.literal_inv; exact absurd hq (hv q)
  -- seq / tupleVar / set
  case case13 =>
    intro a v xs hs ih; constructor
    · rintro ⟨w, h⟩
      unfold validate at h; simp only [hs] at h
      obtain ⟨ys, hys, _⟩ := map_ok h
      exact .seq hs (ih.mp ⟨ys, hys⟩)
    · intro h; obtain ⟨xs', hs', hall⟩ := h.seq_inv
      rw [hs] at hs'; cases hs'
      obtain ⟨ys, hys⟩ := ih.mpr hall
      exact ⟨.tuple ys, by unfold validate; simp [hs, hys, Except.map]⟩
  case case14 =>
    intro a v hs; constructor
    · rintro ⟨w, h⟩; unfold validate at h; simp [hs] at h
    · intro h; obtain ⟨xs', hs', _⟩ := h.seq_inv; rw [hs] at hs'; cases hs'
  case case15 =>
    intro a v xs hs ih; constructor
    · rintro ⟨w, h⟩
      unfold validate at h; simp only [hs] at h
      obtain ⟨ys, hys, _⟩ := map_ok h
      exact .tupleVar hs (ih.mp ⟨ys, hys⟩)
    · intro h; obtain ⟨xs', hs', hall⟩ := h.tupleVar_inv
      rw [hs] at hs'; cases hs'
      obtain ⟨ys, hys⟩ := ih.mpr hall
      exact ⟨.tuple ys, by unfold validate; simp [hs, hys, Except.map]⟩
  case case16 =>
    intro a v hs; constructor
    · rintro ⟨w, h⟩; unfold validate at h; simp [hs] at h
    · intro h; obtain ⟨xs', hs', _⟩ := h.tupleVar_inv; rw [hs] at hs'; cases hs'
  case case17 =>
    intro a v xs hs ih; constructor
    · rintro ⟨w, h⟩
      unfold validate at h; simp only [hs] at h
      obtain ⟨ys, hys, _⟩ := map_ok h
      exact .set hs (ih.mp ⟨ys, hys⟩)
    · intro h; obtain ⟨xs', hs', hall⟩ := h.set_inv
      rw [hs] at hs'; cases hs'
      obtain ⟨ys, hys⟩ := ih.mpr hall
      exact ⟨.fset ys, by unfold validate; simp [hs, hys, Except.map]⟩
  case case18 =>
    intro a v hs; constructor
    · rintro ⟨w, h⟩; unfold validate at h; simp [hs] at h
    · intro h; obtain ⟨xs', hs', _⟩ := h.set_inv; rw [hs] at hs'; cases hs'
  -- map
  case case19 =>
    intro k w v kvs hs ih; constructor
    · rintro ⟨r, h⟩
      unfold validate at h; simp only [hs] at h
      obtain ⟨ys, hys, _⟩ := map_ok h
      have := ih.mp ⟨ys, hys⟩
      exact .map hs this.1 this.2
    · intro h; obtain ⟨kvs', hs', h1, h2⟩ := h.map_inv
      rw [hs] at hs'; cases hs'
      obtain ⟨ys, hys⟩ := ih.mpr ⟨h1, h2⟩
      exact ⟨.mproxy ys, by unfold validate; simp [hs, hys, Except.map]⟩
  case case20 =>
    intro k w v hs; constructor
    · rintro ⟨r, h⟩; unfold validate at h; simp [hs] at h
    · intro h; obtain ⟨kvs', hs', _, _⟩ := h.map_inv; rw [hs] at hs'; cases hs'
  -- tupleFixed
  case case21 =>
    intro as v xs hs hl; constructor
    · rintro ⟨w, h⟩; unfold validate at h; simp only [hs] at h; simp [hl] at h
    · intro h; obtain ⟨xs', hs', hlen, _⟩ := h.tupleFixed_inv
      rw [hs] at hs'; cases hs'
      simp at hl; omega
  case case22 =>
    intro as v xs hs hl ih; constructor
    · rintro ⟨w, h⟩
      unfold validate at h; simp only [hs] at h; simp only [hl] at h
      obtain ⟨ys, hys, _⟩ := map_ok h
      exact .tupleFixed hs (by simp at hl; omega) (ih.mp ⟨ys, hys⟩)
    · intro h; obtain ⟨xs', hs', hlen, hall⟩ := h.tupleFixed_inv
      rw [hs] at hs'; cases hs'
      obtain ⟨ys, hys⟩ := ih.mpr hall
      exact ⟨.tuple ys, by unfold validate; simp only [hs]; simp [hl, hys, Except.map]⟩
  case case23 =>
    intro as v hs; constructor
    · rintro ⟨w, h⟩; unfold validate at h; simp [hs] at h
    · intro h; obtain ⟨xs', hs', _, _⟩ := h.tupleFixed_inv; rw [hs] at hs'; cases hs'
  -- union
  case case24 =>
    intro as v ih; constructor
    · rintro ⟨w, h⟩
      unfold validate at h
      obtain ⟨a, ha, hc⟩ := ih.mp ⟨w, h⟩
      exact .union ha hc
    · intro h; obtain ⟨a, ha, hc⟩ := h.union_inv
      obtain ⟨w, hw⟩ := ih.mpr ⟨a, ha, hc⟩
      exact ⟨w, by unfold validate; exact hw⟩
  -- validateFirst
  case case25 => intro v; constructor <;> (intro h; simp [validateFirst] at h)
  case case26 =>
    intro a as v w hv ih; constructor
    · intro _; exact ⟨a, by simp, ih.mp ⟨w, hv⟩⟩
    · intro _; exact ⟨w, by unfold validateFirst; simp [hv]⟩
  case case27 =>
    intro a as v e hv ih1 ih2; constructor
    · rintro ⟨w, h⟩
      unfold validateFirst at h; simp only [hv] at h
      obtain ⟨b, hb, hc⟩ := ih2.mp ⟨w, h⟩
      exact ⟨b, by simp [hb], hc⟩
    · rintro ⟨b, hb, hc⟩
      simp only [List.mem_cons] at hb
      rcases hb with rfl | hb
      · obtain ⟨w, hw⟩ := ih1.mpr hc; rw [hv] at hw; cases hw
      · obtain ⟨w, hw⟩ := ih2.mpr ⟨b, hb, hc⟩
        exact ⟨w, by unfold validateFirst; simp only [hv]; exact hw⟩
  -- validateZip
  case case28 =>
    intro a as x xs e hv ih; constructor
    · rintro ⟨ys, h⟩; unfold validateZip at h; simp [hv] at h
    · intro h
      have := h (a, x) (by simp)
      obtain ⟨w, hw⟩ := ih.mpr this; rw [hv] at hw; cases hw
  case case29 =>
    intro a as x xs y hv e hz ih1 ih2; constructor
    · rintro ⟨ys, h⟩; unfold validateZip at h; simp [hv, hz] at h
    · intro h
      obtain ⟨ys, hys⟩ := ih2.mpr (fun p hp => h p (by simp [hp]))
      rw [hz] at hys; cases hys
  case case30 =>
    intro a as x xs y hv ys hz ih1 ih2; constructor
    · intro _ p hp
      simp only [List.zip_cons_cons, List.mem_cons] at hp
      rcases hp with rfl | hp
      · exact ih1.mp ⟨y, hv⟩
      · exact ih2.mp ⟨ys, hz⟩ p hp
    · intro _; exact ⟨y :: ys, by unfold validateZip; simp [hv, hz]⟩
  case case31 =>
    intro as xs hne; constructor
    · intro _ p hp
      cases as <;> cases xs <;> simp_all
      exact absurd rfl (hne _ _ _ _ rfl rfl rfl)
    · intro _
      refine ⟨[], ?_⟩
      cases as with
      | nil => simp [validateZip]
      | cons a as' =>
        cases xs with
        | nil => simp [validateZip]
        | cons x xs' => exact (hne a as' x xs' rfl rfl).elim
  -- validateKVs
  case case32 => intro k w; exact ⟨fun _ => ⟨by simp, by simp⟩, fun _ => ⟨[], by simp [validateKVs]⟩⟩
  case case33 =>
    intro k w x y r e hv ih; constructor
    · rintro ⟨r', h⟩; unfold validateKVs at h; simp [hv] at h
    · intro h
      obtain ⟨w', hw⟩ := ih.mpr (h.1 (x, y) (by simp)); rw [hv] at hw; cases hw
  case case34 =>
    intro k w x y r y1 hv e hw ih1 ih2; constructor
    · rintro ⟨r', h⟩; unfold validateKVs at h; simp [hv, hw] at h
    · intro h
      obtain ⟨w', hw'⟩ := ih2.mpr (h.2 (x, y) (by simp)); rw [hw] at hw'; cases hw'
  case case35 =>
    intro k w x y r y1 hv y2 hw e hr ih1 ih2 ih3; constructor
    · rintro ⟨r', h⟩; unfold validateKVs at h; simp [hv, hw, hr] at h
    · intro h
      obtain ⟨r', hr'⟩ := ih3.mpr ⟨fun p hp => h.1 p (by simp [hp]), fun p hp => h.2 p (by simp [hp])⟩
      rw [hr] at hr'; cases hr'
  case case36 =>
    intro k w x y r y1 hv y2 hw r' hr ih1 ih2 ih3; constructor
    · intro _
      have h3 := ih3.mp ⟨r', hr⟩
      constructor
      · intro p hp; simp only [List.mem_cons] at hp
        rcases hp with rfl | hp
        · exact ih1.mp ⟨y1, hv⟩
        · exact h3.1 p hp
      · intro p hp; simp only [List.mem_cons] at hp
        rcases hp with rfl | hp
        · exact ih2.mp ⟨y2, hw⟩
        · exact h3.2 p hp
    · intro _; exact ⟨(y1, y2) :: r', by unfold validateKVs; simp [hv, hw, hr]⟩
  -- validateAll
  case case37 => intro a; exact ⟨fun _ => by simp, fun _ => ⟨[], by simp [validateAll]⟩⟩
  case case38 =>
    intro a x xs e hv ih; constructor
    · rintro ⟨ys, h⟩; unfold validateAll at h; simp [hv] at h
    · intro h
      obtain ⟨w, hw⟩ := ih.mpr (h x (by simp)); rw [hv] at hw; cases hw
  case case39 =>
    intro a x xs y hv e hz ih1 ih2; constructor
    · rintro ⟨ys, h⟩; unfold validateAll at h; simp [hv, hz] at h
    · intro h
      obtain ⟨ys, hys⟩ := ih2.mpr (fun z hz' => h z (by simp [hz']))
      rw [hz] at hys; cases hys
  case case40 =>
    intro a x xs y hv ys hz ih1 ih2; constructor
    · intro _ z hz'
      simp only [List.mem_cons] at hz'
      rcases hz' with rfl | hz'
      · exact ih1.mp ⟨y, hv⟩
      · exact ih2.mp ⟨ys, hz⟩ z hz'
    · intro _; exact ⟨y :: ys, by unfold validateAll; simp [hv, hz]⟩

/-- C05.accepts_iff_conforms -/
theorem accepts_iff_conforms (sub : Nat → Nat → Bool) (a : Ann) (v : Val) :
    (∃ w, validate sub a v = .ok w) ↔ Conforms sub a v := (accepts_iff (sub := sub)).1 a v

end Vd
#print axioms Vd.accepts_iff_conforms
