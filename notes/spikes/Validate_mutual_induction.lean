namespace V2

inductive Val where
  | none | int (i : Int) | str (s : String)
  | list (xs : List Val) | tuple (xs : List Val)
deriving Repr, Inhabited

inductive Ann where
  | any | none | int | str
  | seq (a : Ann)
  | tupleFixed (as : List Ann)
  | union (as : List Ann)
deriving Repr, Inhabited

inductive Err where | type | value | group
deriving Repr, DecidableEq

def seqElems : Val → Option (List Val)
  | .list xs => some xs
  | .tuple xs => some xs
  | _ => Option.none

mutual
def validate : Ann → Val → Except Err Val
  | .any, v => .ok v
  | .none, .none => .ok .none
  | .none, _ => .error .type
  | .int, .int i => .ok (.int i)
  | .int, _ => .error .type
  | .str, .str s => .ok (.str s)
  | .str, _ => .error .type
  | .seq a, v => match seqElems v with
      | some xs => (validateAll a xs).map .tuple
      | Option.none => .error .type
  | .tupleFixed as, v => match seqElems v with
      | some xs => if xs.length != as.length then .error .value
                   else (validateZip as xs).map .tuple
      | Option.none => .error .type
  | .union as, v => validateFirst as v
termination_by a v => (sizeOf a, sizeOf v)
def validateAll (a : Ann) : List Val → Except Err (List Val)
  | [] => .ok []
  | x :: xs => match validate a x with
      | .error e => .error e
      | .ok y => match validateAll a xs with
        | .error e => .error e
        | .ok ys => .ok (y :: ys)
termination_by xs => (sizeOf a, sizeOf xs)
def validateZip : List Ann → List Val → Except Err (List Val)
  | a :: as, x :: xs => match validate a x with
      | .error e => .error e
      | .ok y => match validateZip as xs with
        | .error e => .error e
        | .ok ys => .ok (y :: ys)
  | _, _ => .ok []
termination_by as xs => (sizeOf as, sizeOf xs)
def validateFirst : List Ann → Val → Except Err Val
  | [], _ => .error .group
  | a :: as, v => match validate a v with
      | .ok w => .ok w
      | .error _ => validateFirst as v
termination_by as v => (sizeOf as, sizeOf v)
end

/-- independent conformance spec -/
inductive Conforms : Ann → Val → Prop where
  | any (v) : Conforms .any v
  | none : Conforms .none .none
  | int (i) : Conforms .int (.int i)
  | str (s) : Conforms .str (.str s)
  | seq {a v xs} : seqElems v = some xs → (∀ x ∈ xs, Conforms a x) → Conforms (.seq a) v
  | tupleFixed {as v xs} : seqElems v = some xs → as.length = xs.length → (∀ p ∈ as.zip xs, Conforms p.1 p.2) → Conforms (.tupleFixed as) v
  | union {as v a} : a ∈ as → Conforms a v → Conforms (.union as) v



theorem sound_all :
    (∀ a v, ∀ w, validate a v = .ok w → Conforms a v) ∧
    (∀ as v, ∀ w, validateFirst as v = .ok w → ∃ a ∈ as, Conforms a v) ∧
    (∀ as xs, ∀ ys, validateZip as xs = .ok ys → ∀ p ∈ as.zip xs, Conforms p.1 p.2) ∧
    (∀ a xs, ∀ ys, validateAll a xs = .ok ys → ∀ x ∈ xs, Conforms a x) := by
  apply validate.mutual_induct
  case case1 => intro v w _; exact .any v
  case case2 => intro w _; exact .none
  case case3 => intro x hx w h; unfold validate at h; split at h <;> simp_all
  case case4 => intro i w _; exact .int i
  case case5 => intro x hx w h; unfold validate at h; split at h <;> simp_all
  case case6 => intro s w _; exact .str s
  case case7 => intro x hx w h; unfold validate at h; split at h <;> simp_all
  case case8 =>
    intro a v xs hs ih w h
    unfold validate at h; simp only [hs] at h
    cases hv : validateAll a xs with
    | error e => simp [hv, Except.map] at h
    | ok ys => exact .seq hs (ih ys hv)
  case case9 => intro a v hs w h; unfold validate at h; simp [hs] at h
  case case10 => intro as v xs hs hl w h; unfold validate at h; simp only [hs] at h; simp [hl] at h
  case case11 =>
    intro as v xs hs hl ih w h
    unfold validate at h; simp only [hs] at h; simp only [hl] at h
    cases hv : validateZip as xs with
    | error e => simp [hv, Except.map] at h
    | ok ys =>
      refine .tupleFixed hs ?_ (ih ys hv)
      simp at hl; omega
  case case12 => intro as v hs w h; unfold validate at h; simp [hs] at h
  case case13 =>
    intro as v ih w h
    unfold validate at h
    obtain ⟨a, ha, hc⟩ := ih w h
    exact .union ha hc
  case case14 => intro x w h; unfold validateFirst at h; simp at h
  case case15 =>
    intro a as v w hv ih w' h
    exact ⟨a, by simp, ih w hv⟩
  case case16 =>
    intro a as v e hv ih1 ih2 w h
    unfold validateFirst at h; simp only [hv] at h
    obtain ⟨b, hb, hc⟩ := ih2 w h
    exact ⟨b, by simp [hb], hc⟩
  case case17 => intro a as x xs e hv ih ys h; unfold validateZip at h; simp [hv] at h
  case case18 => intro a as x xs y hv e hz ih1 ih2 ys h; unfold validateZip at h; simp [hv, hz] at h
  case case19 =>
    intro a as x xs y hv ys hz ih1 ih2 ys' h p hp
    simp only [List.zip_cons_cons, List.mem_cons] at hp
    rcases hp with rfl | hp
    · exact ih1 y hv
    · exact ih2 ys hz p hp
  case case20 =>
    intro as xs hne ys h p hp
    cases as <;> cases xs <;> simp_all
    · exact absurd rfl (hne _ _ _ _ rfl rfl rfl)
  case case21 => intro a ys h x hx; simp at hx
  case case22 => intro a x xs e hv ih ys h; unfold validateAll at h; simp [hv] at h
  case case23 => intro a x xs y hv e hz ih1 ih2 ys h; unfold validateAll at h; simp [hv, hz] at h
  case case24 =>
    intro a x xs y hv ys hz ih1 ih2 ys' h z hz'
    simp only [List.mem_cons] at hz'
    rcases hz' with rfl | hz'
    · exact ih1 y hv
    · exact ih2 ys hz z hz'

end V2
