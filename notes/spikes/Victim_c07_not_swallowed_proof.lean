/-! Spike: C07 (partial) on the per-task machine – one task, its stack of async scopes with their task groups
    (members abstracted to a pending counter), CPython 3.12 `TaskGroup.__aexit__` bookkeeping and haiway's
    repaired exception filter. In runs without user exceptions / member errors a delivered cancellation is
    never swallowed, wherever it lands: body, between scopes, or while any exit waits. -/
namespace Vc

inductive Outcome where | ok | cancelled
deriving DecidableEq, Repr

structure G where
  pending : Nat := 0          -- members not yet done
  exiting : Bool := false
  aborting : Bool := false
  propagate : Bool := false   -- `propagate_cancellation_error is not None`
  bodyOut : Outcome := .ok
deriving DecidableEq, Repr

inductive Status where
  | body                       -- inside the innermost body (or at top level)
  | unwinding                  -- a CancelledError is propagating
  | waiting (suspended : Bool) -- inside `TaskGroup.__aexit__` of the innermost scope
  | done (o : Outcome)
deriving DecidableEq, Repr

structure V where
  scopes : List G := []        -- innermost first
  status : Status := .body
  mustCancel : Bool := false   -- a CancelledError is due at the next resumption
  owed : Bool := false         -- ghost: some external cancel() reached the live task
deriving Repr

inductive Label where
  | enter | spawn | cancel | deliver | bodyEnd
  | memberDone (i : Nat)       -- a member of the i-th enclosing scope finishes (ok or cancelled)
  | exitDone | taskEnd
deriving Repr

def decPending (gs : List G) (i : Nat) : List G :=
  match gs[i]? with
  | some g => gs.set i { g with pending := g.pending - 1 }
  | none => gs

def step (v : V) : Label → Option V
  | .enter => if v.status = .body then some { v with scopes := {} :: v.scopes } else none
  | .spawn =>
    match v.status, v.scopes with
    | .body, g :: rest => if g.aborting then none else some { v with scopes := { g with pending := g.pending + 1 } :: rest }
    | _, _ => none
  | .cancel =>
    match v.status with
    | .done _ => some v                                  -- `cancel()` on a finished task does nothing
    | _ => some { v with mustCancel := true, owed := true }
  | .deliver =>
    if v.mustCancel then
      match v.status, v.scopes with
      | .body, _ => some { v with mustCancel := false, status := .unwinding }
      | .waiting true, g :: rest =>
        -- CancelledError inside the wait loop of `TaskGroup.__aexit__`
        some { v with mustCancel := false,
                      scopes := (if g.aborting then g else { g with propagate := true, aborting := true }) :: rest }
      | _, _ => none
    else none
  | .bodyEnd =>
    match v.scopes with
    | g :: rest =>
      let o? : Option Outcome := match v.status with | .body => some .ok | .unwinding => some .cancelled | _ => none
      match o? with
      | some o =>
        let g1 := { g with exiting := true, bodyOut := o, propagate := (o == .cancelled),
                           aborting := g.aborting || (o == .cancelled) }
        some { v with scopes := g1 :: rest, status := .waiting (g.pending != 0) }
      | none => none
    | [] => none
  | .memberDone i =>
    match v.status with
    | .done _ => none
    | _ => some { v with scopes := decPending v.scopes i }
  | .exitDone =>
    match v.status, v.scopes with
    | .waiting susp, g :: rest =>
      if g.pending = 0 ∧ !(susp && v.mustCancel) then
        let result : Outcome := if g.propagate then .cancelled else g.bodyOut   -- errors = 0: cancel re-raised, else body's outcome
        some { v with scopes := rest, status := if result = .ok then .body else .unwinding }
      else none
    | _, _ => none
  | .taskEnd =>
    match v.scopes, v.status with
    | [], .body => some { v with status := .done (if v.mustCancel then .cancelled else .ok), mustCancel := false }
    | [], .unwinding => some { v with status := .done .cancelled, mustCancel := false }
    | _, _ => none

def run (v : V) : List Label → Option V
  | [] => some v
  | l :: ls => match step v l with | some v' => run v' ls | none => none

/-- the innermost group will hand the cancellation back when its exit completes -/
def headReraises (v : V) : Prop :=
  match v.scopes with | g :: _ => g.bodyOut = .cancelled ∨ g.propagate = true | [] => False

def Fresh (g : G) : Prop := g.exiting = false ∧ g.aborting = false ∧ g.propagate = false ∧ g.bodyOut = .ok

/-- only the group whose exit is in progress has left its initial flags -/
def Shape (v : V) : Prop :=
  match v.status with
  | .waiting _ => ∃ g rest, v.scopes = g :: rest ∧ ∀ r ∈ rest, Fresh r
  | _ => ∀ g ∈ v.scopes, Fresh g

structure K (v : V) : Prop where
  owed : v.owed = true →
    v.mustCancel = true ∨ v.status = .unwinding ∨ ((∃ s, v.status = .waiting s) ∧ headReraises v) ∨
    v.status = .done .cancelled
  abortingOk : ∀ s, v.status = .waiting s → ∀ g rest, v.scopes = g :: rest → g.aborting = true →
    g.bodyOut = .cancelled ∨ g.propagate = true
  shape : Shape v

theorem init_K : K {} := ⟨by simp, by simp, by simp [Shape]⟩

theorem decPending_length (gs : List G) (i : Nat) : (decPending gs i).length = gs.length := by
  unfold decPending; split <;> simp

theorem fresh_dec (gs : List G) (i : Nat) (h : ∀ g ∈ gs, Fresh g) : ∀ g ∈ decPending gs i, Fresh g := by
  unfold decPending
  cases hg : gs[i]? with
  | none => exact h
  | some g0 =>
    intro g hm
    rcases List.mem_or_eq_of_mem_set hm with hm | hm
    · exact h g hm
    · subst hm
      have := h g0 (List.mem_of_getElem? hg)
      exact this

theorem step_K (v v' : V) (l : Label) (h : K v) (hs : step v l = some v') : K v' := by
  obtain ⟨ho, ha, hsh⟩ := h
  cases l with
  | enter =>
    simp only [step] at hs
    split at hs
    · rename_i hb; simp only [Option.some.injEq] at hs; subst hs
      refine ⟨?_, by simp [hb], ?_⟩
      · intro hw
        rcases ho hw with h1 | h1 | ⟨⟨s, h1⟩, _⟩ | h1
        · exact Or.inl h1
        · simp [hb] at h1
        · simp [hb] at h1
        · simp [hb] at h1
      · simp only [Shape, hb] at hsh ⊢
        intro g hg; simp only [List.mem_cons] at hg
        rcases hg with rfl | hg
        · simp [Fresh]
        · exact hsh g hg
    · simp at hs
  | spawn =>
    simp only [step] at hs
    split at hs
    · rename_i g rest hst hsc
      split at hs
      · simp at hs
      · simp only [Option.some.injEq] at hs; subst hs
        refine ⟨?_, by simp [hst], ?_⟩
        · intro hw
          rcases ho hw with h1 | h1 | ⟨⟨s, h1⟩, _⟩ | h1
          · exact Or.inl h1
          · simp [hst] at h1
          · simp [hst] at h1
          · simp [hst] at h1
        · simp only [Shape, hst, hsc] at hsh ⊢
          intro g' hg'; simp only [List.mem_cons] at hg'
          rcases hg' with rfl | hg'
          · have := hsh g (by simp); exact this
          · exact hsh g' (by simp [hg'])
    · simp at hs
  | cancel =>
    simp only [step] at hs
    split at hs
    · simp only [Option.some.injEq] at hs; subst hs; exact ⟨ho, ha, hsh⟩
    · simp only [Option.some.injEq] at hs; subst hs
      exact ⟨fun _ => Or.inl rfl, ha, hsh⟩
  | deliver =>
    simp only [step] at hs
    split at hs
    · rename_i hm
      split at hs
      · rename_i hst
        simp only [Option.some.injEq] at hs; subst hs
        refine ⟨fun _ => Or.inr (Or.inl rfl), by simp, ?_⟩
        simp only [Shape, hst] at hsh ⊢; exact hsh
      · rename_i g rest hst hsc
        simp only [Option.some.injEq] at hs; subst hs
        have hab := ha true hst g rest hsc
        refine ⟨?_, ?_, ?_⟩
        · intro _
          refine Or.inr (Or.inr (Or.inl ⟨⟨true, hst⟩, ?_⟩))
          simp only [headReraises]
          by_cases hga : g.aborting = true
          · simp [hga]; exact hab hga
          · simp [hga]
        · intro s _ g' rest' hsc' hga'
          simp only [List.cons.injEq] at hsc'
          obtain ⟨rfl, rfl⟩ := hsc'
          by_cases hga : g.aborting = true
          · simp [hga] at hga' ⊢; exact hab hga
          · simp [hga]
        · simp only [Shape, hst, hsc] at hsh ⊢
          obtain ⟨g0, rest0, heq, hfr⟩ := hsh
          simp only [List.cons.injEq] at heq; obtain ⟨rfl, rfl⟩ := heq
          exact ⟨_, _, rfl, hfr⟩
      · simp at hs
    · simp at hs
  | bodyEnd =>
    simp only [step] at hs
    split at hs
    · rename_i g rest hsc
      split at hs
      · rename_i o ho'
        simp only [Option.some.injEq] at hs; subst hs
        -- before the body ends every scope is fresh
        have hfresh : ∀ g' ∈ v.scopes, Fresh g' := by
          cases hst : v.status with
          | waiting s => simp [hst] at ho'
          | done o2 => simp [hst] at ho'
          | body => simpa [Shape, hst] using hsh
          | unwinding => simpa [Shape, hst] using hsh
        have hg : Fresh g := hfresh g (by simp [hsc])
        refine ⟨?_, ?_, ?_⟩
        · intro hw
          rcases ho hw with h1 | h1 | ⟨⟨s, h1⟩, _⟩ | h1
          · exact Or.inl h1
          · have : o = .cancelled := by simp [h1] at ho'; exact ho'.symm
            subst this
            exact Or.inr (Or.inr (Or.inl ⟨⟨_, rfl⟩, by simp [headReraises]⟩))
          · simp [h1] at ho'
          · simp [h1] at ho'
        · intro s _ g' rest' hsc' hga'
          simp only [List.cons.injEq] at hsc'
          obtain ⟨rfl, rfl⟩ := hsc'
          cases o with
          | cancelled => simp
          | ok => simp [hg.2.1] at hga'
        · simp only [Shape]
          exact ⟨_, _, rfl, fun r hr => hfresh r (by simp [hsc, hr])⟩
      · simp at hs
    · simp at hs
  | memberDone i =>
    simp only [step] at hs
    split at hs
    · simp at hs
    · rename_i hnd
      simp only [Option.some.injEq] at hs; subst hs
      -- only a pending counter changes
      have hdec : ∀ (gs : List G) (g : G) (rest : List G), decPending gs i = g :: rest →
          ∃ g0 rest0, gs = g0 :: rest0 ∧ g.aborting = g0.aborting ∧ g.bodyOut = g0.bodyOut ∧ g.propagate = g0.propagate ∧
            (∀ r ∈ rest, ∃ r0 ∈ rest0, r.exiting = r0.exiting ∧ r.aborting = r0.aborting ∧ r.propagate = r0.propagate ∧ r.bodyOut = r0.bodyOut) := by
        intro gs g rest hd
        unfold decPending at hd
        cases hgi : gs[i]? with
        | none => simp [hgi] at hd; exact ⟨g, rest, hd, rfl, rfl, rfl, fun r hr => ⟨r, hr, rfl, rfl, rfl, rfl⟩⟩
        | some gi =>
          simp only [hgi] at hd
          cases gs with
          | nil => simp at hgi
          | cons g0 rest0 =>
            cases i with
            | zero =>
              simp at hgi hd; subst hgi
              obtain ⟨rfl, rfl⟩ := hd
              exact ⟨_, _, rfl, rfl, rfl, rfl, fun r hr => ⟨r, hr, rfl, rfl, rfl, rfl⟩⟩
            | succ j =>
              simp at hgi hd
              obtain ⟨rfl, rfl⟩ := hd
              refine ⟨_, _, rfl, rfl, rfl, rfl, ?_⟩
              intro r hr
              rcases List.mem_or_eq_of_mem_set hr with hr | hr
              · exact ⟨r, hr, rfl, rfl, rfl, rfl⟩
              · subst hr; exact ⟨gi, List.mem_of_getElem? hgi, rfl, rfl, rfl, rfl⟩
      refine ⟨?_, ?_, ?_⟩
      · intro hw
        rcases ho hw with h1 | h1 | ⟨⟨s, h1⟩, h2⟩ | h1
        · exact Or.inl h1
        · exact Or.inr (Or.inl h1)
        · refine Or.inr (Or.inr (Or.inl ⟨⟨s, h1⟩, ?_⟩))
          simp only [headReraises] at h2 ⊢
          cases hsc : v.scopes with
          | nil => simp [hsc] at h2
          | cons g0 rest0 =>
            simp only [hsc] at h2
            cases hd : decPending (g0 :: rest0) i with
            | nil => have := decPending_length (g0 :: rest0) i; simp [hd] at this
            | cons g rest =>
              obtain ⟨g0', rest0', heq, h3, h4, h5, _⟩ := hdec _ g rest hd
              simp only [List.cons.injEq] at heq; obtain ⟨rfl, rfl⟩ := heq
              simp only; rw [h4, h5]; exact h2
        · exact Or.inr (Or.inr (Or.inr h1))
      · intro s hst g rest hsc hga
        obtain ⟨g0, rest0, heq, h3, h4, h5, _⟩ := hdec _ g rest hsc
        rw [h4, h5]; exact ha s hst g0 rest0 heq (h3 ▸ hga)
      · cases hst : v.status with
        | waiting s =>
          simp only [Shape, hst] at hsh ⊢
          obtain ⟨g0, rest0, heq, hfr⟩ := hsh
          cases hd : decPending v.scopes i with
          | nil => have := decPending_length v.scopes i; rw [hd, heq] at this; simp at this
          | cons g rest =>
            obtain ⟨g0', rest0', heq', _, _, _, hrest⟩ := hdec _ g rest hd
            rw [heq] at heq'; simp only [List.cons.injEq] at heq'; obtain ⟨rfl, rfl⟩ := heq'
            refine ⟨g, rest, rfl, ?_⟩
            intro r hr
            obtain ⟨r0, hr0, e1, e2, e3, e4⟩ := hrest r hr
            have := hfr r0 hr0
            exact ⟨e1 ▸ this.1, e2 ▸ this.2.1, e3 ▸ this.2.2.1, e4 ▸ this.2.2.2⟩
        | body => simp only [Shape, hst] at hsh ⊢; exact fresh_dec _ i hsh
        | unwinding => simp only [Shape, hst] at hsh ⊢; exact fresh_dec _ i hsh
        | done o => exact absurd hst (hnd o)
  | exitDone =>
    simp only [step] at hs
    split at hs
    · rename_i susp g rest hst hsc
      split at hs
      · rename_i hcond
        simp only [Option.some.injEq] at hs; subst hs
        have hrest : ∀ r ∈ rest, Fresh r := by
          simp only [Shape, hst] at hsh
          obtain ⟨g0, rest0, heq, hfr⟩ := hsh
          rw [hsc] at heq; simp only [List.cons.injEq] at heq; obtain ⟨rfl, rfl⟩ := heq
          exact hfr
        refine ⟨?_, ?_, ?_⟩
        · intro hw
          rcases ho hw with h1 | h1 | ⟨_, h2⟩ | h1
          · exact Or.inl h1
          · simp [hst] at h1
          · -- the group hands the cancellation back
            simp only [headReraises, hsc] at h2
            right; left
            rcases h2 with h2 | h2
            · by_cases hp : g.propagate = true <;> simp [hp, h2]
            · simp [h2]
          · simp [hst] at h1
        · intro s hs' g' rest' _ _
          by_cases hr : (if g.propagate = true then Outcome.cancelled else g.bodyOut) = Outcome.ok <;> simp [hr] at hs'
        · simp only [Shape]
          by_cases hr : (if g.propagate = true then Outcome.cancelled else g.bodyOut) = Outcome.ok <;> simp [hr] <;> exact hrest
      · simp at hs
    · simp at hs
  | taskEnd =>
    simp only [step] at hs
    split at hs
    · rename_i hsc hst
      simp only [Option.some.injEq] at hs; subst hs
      refine ⟨?_, by simp, by simp [Shape, hsc]⟩
      intro hw
      rcases ho hw with h1 | h1 | ⟨⟨s, h1⟩, _⟩ | h1
      · simp [h1]
      · simp [hst] at h1
      · simp [hst] at h1
      · simp [hst] at h1
    · rename_i hsc hst
      simp only [Option.some.injEq] at hs; subst hs
      exact ⟨fun _ => Or.inr (Or.inr (Or.inr rfl)), by simp, by simp [Shape, hsc]⟩
    · simp at hs

/-- a finished task carries no pending cancellation flag -/
def DoneClean (v : V) : Prop := ∀ o, v.status = .done o → v.mustCancel = false

theorem step_DoneClean (v v' : V) (l : Label) (h : DoneClean v) (hs : step v l = some v') : DoneClean v' := by
  cases l with
  | enter =>
    simp only [step] at hs; split at hs
    · rename_i hb; simp only [Option.some.injEq] at hs; subst hs; intro o ho; simp [hb] at ho
    · simp at hs
  | spawn =>
    simp only [step] at hs; split at hs
    · rename_i g rest hst hsc; split at hs
      · simp at hs
      · simp only [Option.some.injEq] at hs; subst hs; intro o ho; simp [hst] at ho
    · simp at hs
  | cancel =>
    simp only [step] at hs; split at hs
    · simp only [Option.some.injEq] at hs; subst hs; exact h
    · rename_i hnd; simp only [Option.some.injEq] at hs; subst hs; intro o ho; exact absurd ho (hnd o)
  | deliver =>
    simp only [step] at hs; split at hs
    · split at hs
      · simp only [Option.some.injEq] at hs; subst hs; intro o ho; simp at ho
      · rename_i g rest hst hsc; simp only [Option.some.injEq] at hs; subst hs; intro o ho; simp [hst] at ho
      · simp at hs
    · simp at hs
  | bodyEnd =>
    simp only [step] at hs; split at hs
    · split at hs
      · simp only [Option.some.injEq] at hs; subst hs; intro o ho; simp at ho
      · simp at hs
    · simp at hs
  | memberDone i =>
    simp only [step] at hs; split at hs
    · simp at hs
    · rename_i hnd; simp only [Option.some.injEq] at hs; subst hs; intro o ho; exact absurd ho (hnd o)
  | exitDone =>
    simp only [step] at hs; split at hs
    · split at hs
      · rename_i g rest _ _ _
        simp only [Option.some.injEq] at hs; subst hs; intro o ho
        by_cases hr : (if g.propagate = true then Outcome.cancelled else g.bodyOut) = Outcome.ok <;> simp [hr] at ho
      · simp at hs
    · simp at hs
  | taskEnd =>
    simp only [step] at hs; split at hs
    · simp only [Option.some.injEq] at hs; subst hs; intro o _; rfl
    · simp only [Option.some.injEq] at hs; subst hs; intro o _; rfl
    · simp at hs

theorem run_DoneClean : ∀ (ls : List Label) (v v' : V), DoneClean v → run v ls = some v' → DoneClean v'
  | [], v, v', h, hr => by simp [run] at hr; exact hr ▸ h
  | l :: ls, v, v', h, hr => by
    simp only [run] at hr
    cases hs : step v l with
    | none => simp [hs] at hr
    | some v1 => simp only [hs] at hr; exact run_DoneClean ls v1 v' (step_DoneClean v v1 l h hs) hr

theorem run_K : ∀ (ls : List Label) (v v' : V), K v → run v ls = some v' → K v'
  | [], v, v', h, hr => by simp [run] at hr; exact hr ▸ h
  | l :: ls, v, v', h, hr => by
    simp only [run] at hr
    cases hs : step v l with
    | none => simp [hs] at hr
    | some v1 => simp only [hs] at hr; exact run_K ls v1 v' (step_K v v1 l h hs) hr

/-- C07.not_swallowed (partial: no user exceptions, no member errors): for every interleaving of scope entries,
    spawns, member completions, exits and cancellations, a task that was asked to cancel while alive and has
    ended, has ended cancelled. -/
theorem not_swallowed (ls : List Label) (v : V) (hr : run {} ls = some v) (hw : v.owed = true)
    (o : Outcome) (hd : v.status = .done o) : o = .cancelled := by
  have hk := run_K ls {} v init_K hr
  rcases hk.owed hw with h1 | h1 | ⟨⟨s, h1⟩, _⟩ | h1
  · -- a finished task has no pending flag: `taskEnd` clears it, later `cancel`s do not set it
    have := run_DoneClean ls {} v (by intro o ho; simp at ho) hr o hd
    rw [this] at h1; cases h1
  · simp [hd] at h1
  · simp [hd] at h1
  · rw [hd] at h1; cases h1; rfl

end Vc

#print axioms Vc.not_swallowed
