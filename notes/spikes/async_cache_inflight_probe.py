import sys, random
sys.path.insert(0, "/tmp/probe")
import vloop
from vloop import CLOCK, VLoop
import asyncio
from haiway import cache

def run(seed):
    rng = random.Random(seed)
    loop = VLoop(); asyncio.set_event_loop(loop)
    limit = rng.choice([1, 1, 2]); expiration = rng.choice([None, 5.0])
    inv = []            # invocation records: dict(key, gate, cancelled_seen, idx)
    @cache(limit=limit, expiration=expiration)
    async def f(key):
        rec = dict(key=key, gate=loop.create_future(), cancelled=False, idx=len(inv)); inv.append(rec)
        try:
            out = await rec["gate"]
        except asyncio.CancelledError:
            rec["cancelled"] = True; raise
        if out == "boom": raise RuntimeError(f"boom{rec['idx']}")
        return (key, rec["idx"])
    callers = []   # dict(task, key, joined_inv)
    problems = []
    # model: table list of [key, invidx, expire]
    table = []
    now0 = CLOCK.now
    def model_call(key):
        now = CLOCK.now
        ent = next((e for e in table if e[0] == key), None)
        if ent is not None:
            if ent[2] is not None and ent[2] < now: table.remove(ent); ent = None
            else:
                table.remove(ent); table.append(ent); return ent[1], False
        idx = len(inv)  # new invocation expected
        table.append([key, idx, now + expiration if expiration else None])
        if len(table) > limit: table.pop(0)
        return idx, True
    for step in range(rng.randint(3, 14)):
        r = rng.random()
        if r < 0.45:
            key = rng.choice(["a", "b"])
            expect_idx, expect_new = model_call(key)
            before = len(inv)
            t = loop.create_task(f(key)); loop.quiesce()
            if (len(inv) > before) != expect_new: problems.append(("invocation-count", step, key, expect_new))
            callers.append(dict(task=t, key=key, inv=expect_idx, cancelled=False))
        elif r < 0.6 and callers:
            c = rng.choice(callers)
            if not c["task"].done(): c["task"].cancel(); c["cancelled"] = True; loop.quiesce()
        elif r < 0.8 and inv:
            rec = rng.choice(inv)
            if not rec["gate"].done(): rec["gate"].set_result(rng.choice(["ok", "ok", "boom"])); loop.quiesce()
        else:
            CLOCK.now += rng.choice([1, 3, 6]); loop.quiesce()
    # finish all
    for rec in inv:
        if not rec["gate"].done(): rec["gate"].set_result("ok")
    loop.quiesce()
    for rec in inv:
        if rec["cancelled"]: problems.append(("invocation-cancelled", rec["idx"]))
    for c in callers:
        t = c["task"]
        if not t.done(): problems.append(("caller-hang",)); continue
        if c["cancelled"]:
            if not t.cancelled() and t.exception() is None and t.result()[1] != c["inv"]: problems.append(("cancelled-caller-wrong", ))
            continue
        if t.cancelled(): problems.append(("caller-cancelled-spuriously",)); continue
        exc = t.exception()
        if exc is not None:
            if str(exc) != f"boom{c['inv']}": problems.append(("wrong-exc", str(exc), c["inv"]))
        elif t.result() != (c["key"], c["inv"]): problems.append(("wrong-result", t.result(), c["key"], c["inv"]))
    loop.close()
    return problems
bad = 0
for s in range(4000):
    p = run(s)
    if p:
        bad += 1
        if bad <= 5: print(s, p)
print("bad", bad)
