import sys, random, itertools
sys.path.insert(0, "/tmp/probe")
import vloop
from vloop import CLOCK, VLoop
import asyncio
from haiway import cache

class Boom(Exception): pass

KEYS = [((1,), {}), ((1.0,), {}), ((True,), {}), (("1",), {}), ((), {"x": 1}), ((2,), {}), ((1, 2), {}), ((), {"x": 1.0})]
def keyid(args, kwargs):
    # independent typed-key oracle: positional (type, value) then keywords in call order
    return (tuple((type(a).__name__, repr(a)) for a in args), tuple((k, type(v).__name__, repr(v)) for k, v in kwargs.items()))

def model(limit, expiration, hist, caches_errors):
    table = []  # list of [key, val, expire] oldest first
    out = []; now = 0; inv = 0
    for h in hist:
        if h[0] == "adv": now += h[1]; continue
        _, ki, fails = h
        key = keyid(*KEYS[ki])
        ent = next((e for e in table if e[0] == key), None)
        if ent is not None:
            if ent[2] is not None and ent[2] < now:
                table.remove(ent); ent = None
            else:
                table.remove(ent); table.append(ent)
                out.append(("hit",) + ent[1]); continue
        inv += 1
        val = ("boom", inv) if fails else ("val", ki, inv)
        if fails and not caches_errors:
            out.append(("raised", inv)); continue
        table.append([key, val, (now + expiration) if expiration else None])
        if len(table) > limit: table.pop(0)
        out.append(("computed",) + val)
    return out

def real(limit, expiration, hist, variant):
    loop = VLoop(); asyncio.set_event_loop(loop)
    t0 = CLOCK.now
    inv = [0]; fail_next = [False]
    def body(ki):
        inv[0] += 1
        if fail_next[0]: raise Boom(inv[0])
        return ("val", ki, inv[0])
    kw = dict(limit=limit, expiration=expiration)
    if variant == "sync":
        @cache(**kw)
        def f(*a, **k): return body(cur[0])
        call = lambda a, k: f(*a, **k)
    elif variant == "async":
        @cache(**kw)
        async def f(*a, **k): return body(cur[0])
        def call(a, k):
            t = loop.create_task(f(*a, **k)); loop.quiesce(); return t.result()
    elif variant == "method":
        class C:
            @cache(**kw)
            def m(self, *a, **k): return body(cur[0])
        c = C(); call = lambda a, k: c.m(*a, **k)
    elif variant == "amethod":
        class C:
            @cache(**kw)
            async def m(self, *a, **k): return body(cur[0])
        c = C()
        def call(a, k):
            t = loop.create_task(c.m(*a, **k)); loop.quiesce(); return t.result()
    cur = [None]; out = []
    for h in hist:
        if h[0] == "adv": CLOCK.now += h[1]; continue
        _, ki, fails = h
        cur[0] = ki; fail_next[0] = fails
        before = inv[0]
        try:
            v = call(*KEYS[ki])
            out.append((("computed",) if inv[0] > before else ("hit",)) + v)
        except Boom as e:
            n = e.args[0]
            if inv[0] > before: out.append(("raised", n) if variant in ("sync", "method") else ("computed", "boom", n))
            else: out.append(("hit", "boom", n))
    loop.close()
    return out

rng = random.Random(3); bad = 0; n = 0
for i in range(4000):
    limit = rng.randint(1, 4); expiration = rng.choice([None, None, 3, 10])
    nk = rng.randint(2, len(KEYS))
    hist = []
    for _ in range(rng.randint(3, 40)):
        r = rng.random()
        if r < 0.25: hist.append(("adv", rng.choice([1, 2, 3, 4, 10, 11])))
        else: hist.append(("call", rng.randrange(nk), rng.random() < 0.12))
    for variant in ("sync", "async", "method", "amethod"):
        n += 1
        r = real(limit, float(expiration) if expiration else None, hist, variant)
        m = model(limit, expiration, hist, caches_errors=variant in ("async", "amethod"))
        if r != m:
            bad += 1
            if bad <= 4:
                print("DIFF", variant, limit, expiration, hist)
                for a, b in zip(r, m):
                    print("   ", a, b, "" if a == b else "<<<")
print("n", n, "bad", bad)
