import sys, itertools, collections
sys.path.insert(0, "/tmp/probe")
import vloop
from vloop import CLOCK, VLoop
import asyncio
from haiway import *

class Boom(Exception): pass

def run(body, child, cancel_at, second_cancel_at=None):
    loop = VLoop(); asyncio.set_event_loop(loop)
    gates = {}
    def gate(name):
        if name not in gates: gates[name] = loop.create_future()
        return gates[name]
    log = []
    async def childf():
        try:
            await gate("child")
            if child == "fail": raise Boom("child")
        except asyncio.CancelledError:
            log.append("child-cancelled")
            if child == "raise-on-cancel": raise Boom("child-on-cancel")
            if child == "slow-cancel":
                try: await gate("childslow")
                except asyncio.CancelledError: log.append("child-cancelled-again")
            raise
    after = []
    async def victim():
        try:
            async with ctx.scope("s"):
                ctx.spawn(childf)
                if body == "raise": raise Boom("body")
                if body == "gate": await gate("body")
            log.append("left-ok")
        except BaseException as e:
            log.append(f"left:{type(e).__name__}"); raise
        after.append("continued")
        try:
            ctx.check_cancellation(); log.append("check-ok")
        except asyncio.CancelledError:
            log.append("check-raised"); raise
        await asyncio.sleep(0)
        log.append("after-sleep")
    vt = loop.create_task(victim()); loop.quiesce()
    cancels = 0
    for _ in range(12):
        pend = [n for n, f in gates.items() if not f.done()]
        if not pend: break
        n = pend[0]
        if cancel_at == n and cancels == 0: vt.cancel(); cancels += 1
        elif second_cancel_at == n and cancels == 1: vt.cancel(); cancels += 1
        else: gates[n].set_result(None)
        loop.quiesce()
    loop.quiesce(advance=True)
    res = dict(done=vt.done(), cancelled=vt.done() and vt.cancelled(), exc=(None if not vt.done() or vt.cancelled() else type(vt.exception()).__name__ if vt.exception() else None), log=log, cancels=cancels, cancelling=vt.cancelling())
    for t in asyncio.all_tasks(loop): t.cancel()
    loop.quiesce(); loop.close()
    return res

for body in ("ok", "raise", "gate"):
    for child in ("plain", "fail", "raise-on-cancel", "slow-cancel"):
        names = (["body"] if body == "gate" else []) + ["child"] + (["childslow"] if child == "slow-cancel" else [])
        for c1 in [None] + names:
            r = run(body, child, c1)
            flag = ""
            if r["cancels"] and not r["cancelled"]: flag = "<<< CANCEL LOST"
            if not r["cancels"] and "check-raised" in r["log"]: flag += " <<< SPURIOUS CHECK"
            if not r["cancels"] and r["cancelled"]: flag += " (cancelled without request)"
            print(f"body={body:5} child={child:16} cancel_at={str(c1):10} -> cancelled={r['cancelled']!s:5} exc={r['exc']!s:10} cancelling={r['cancelling']} {r['log']} {flag}")
