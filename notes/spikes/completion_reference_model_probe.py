import sys, random, itertools
sys.path.insert(0, "/tmp/probe")
import vloop
from vloop import CLOCK, VLoop
import asyncio
from haiway import ctx

def real(parents, events, kinds):
    # parents[i] = parent index or None (i>parent); events: list of ("create", i) / ("exit", i); node i's task is created at its create event
    loop = VLoop(); asyncio.set_event_loop(loop)
    fired = []; errors = []
    gates = {}
    start_gates = {}
    tasks = {}
    # each node: a task that (when told) constructs+enters the scope inside the context inherited from its parent's body, then waits for exit gate
    spawn_q = {}
    async def node(i):
        def done(m): fired.append(i)
        async def adone(m): fired.append(i)
        try:
            if kinds[i] == "sync":
                with ctx.scope(f"n{i}", completion=done):
                    entered[i].set_result(None)
                    await gates[i]
            else:
                async with ctx.scope(f"n{i}", completion=adone if kinds[i] == "asynccb" else done):
                    entered[i].set_result(None)
                    await gates[i]
        except BaseException as e:
            errors.append((i, type(e).__name__, str(e)[:60]))
    entered = {}
    ctxs = {}
    log = []
    for ev in events:
        if ev[0] == "create":
            i = ev[1]
            gates[i] = loop.create_future(); entered[i] = loop.create_future()
            p = parents[i]
            if p is None:
                tasks[i] = loop.create_task(node(i))
            else:
                # create from a helper task that inherited parent's body context: captured when parent entered
                tasks[i] = loop.create_task(node(i), context=ctxs[p].copy())
            loop.quiesce()
            # capture body context of node i for its future children: run a task inside? use a probe task spawned from within? simpler: copy context of the node task
            ctxs[i] = tasks[i].get_context().copy()
        else:
            i = ev[1]
            gates[i].set_result(None); loop.quiesce()
        log.append((ev, list(fired)))
    loop.quiesce(advance=True)
    for t in tasks.values():
        if not t.done(): t.cancel()
    loop.quiesce(); loop.close()
    return fired, errors

def model(parents, events, kinds):
    n = len(parents)
    parent = {}; finished = set(); completed = set(); nested = {i: [] for i in range(n)}; fired = []; errors = []
    def is_completed(i): return i in completed and all(is_completed(c) for c in nested[i])
    def complete_if_able(i):
        if i in completed: errors.append((i, "AssertionError")); return
        if i not in finished: return
        if any(not is_completed(c) for c in nested[i]): return
        completed.add(i); fired.append(i)
        if parent.get(i) is not None: complete_if_able(parent[i])
    for ev in events:
        if ev[0] == "create":
            i = ev[1]; p = parents[i]
            if p is not None and p in completed: p = None      # repaired behaviour
            parent[i] = p
            if p is not None: nested[p].append(i)
        else:
            i = ev[1]; finished.add(i); complete_if_able(i)
    return fired, errors

rng = random.Random(5); bad = 0; n = 0
for it in range(3000):
    k = rng.randint(1, 5)
    parents = [None] + [rng.choice([None] + list(range(i))) if rng.random() < 0.9 else None for i in range(1, k)]
    kinds = [rng.choice(["sync", "async", "asynccb"]) for _ in range(k)]
    # random linearisation: create i must come after create parent; exit i after create i. parent may exit before child created (late child)
    pending_create = list(range(k)); created = []; exited = []; events = []
    while pending_create or len(exited) < k:
        opts = []
        for i in pending_create:
            if parents[i] is None or parents[i] in created: opts.append(("create", i)); break   # creation in index order
        opts += [("exit", i) for i in created if i not in exited]
        ev = rng.choice(opts); events.append(ev)
        if ev[0] == "create": pending_create.remove(ev[1]); created.append(ev[1])
        else: exited.append(ev[1])
    n += 1
    r = real(parents, events, kinds); m = model(parents, events, kinds)
    if sorted(r[0]) != sorted(m[0]) or len(r[0]) != len(set(r[0])) or [e[:2] for e in r[1]] != m[1]:
        bad += 1
        if bad <= 5: print("DIFF", parents, kinds, events, "\n real ", r, "\n model", m)
print("n", n, "bad", bad)
