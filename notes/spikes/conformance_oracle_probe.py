import random, enum, uuid, datetime, typing, sys
from collections.abc import Sequence, Set, Mapping, Callable
from typing import Any, Literal
from types import MappingProxyType
from haiway import State, MISSING, Missing

class Col(enum.Enum):
    R = 1; G = 2
class SCol(str, enum.Enum):
    A = "a"
class Inner(State):
    n: int = 0
class Box[T](State):
    v: T
class Sub(Inner):
    m: str = ""

# annotation terms: tuples
LEAVES = ["none", "bool", "int", "float", "str", "bytes", "any", "missing", "uuid", "date", "enum", "inner", "boxint", "box", "callable", "lit"]
def gen_ann(rng, depth):
    if depth == 0 or rng.random() < 0.35:
        k = rng.choice(LEAVES)
        if k == "lit": return ("lit", tuple(rng.sample([1, "a", True, 2, "b", Col.R, None], rng.randint(1, 3))))
        return (k,)
    k = rng.choice(["seq", "set", "fset", "map", "tupf", "tupv", "union", "opt"])
    if k in ("seq", "set", "fset", "tupv", "opt"): return (k, gen_ann(rng, depth - 1))
    if k == "map": return (k, gen_ann(rng, 0), gen_ann(rng, depth - 1))
    if k == "tupf": return (k, tuple(gen_ann(rng, depth - 1) for _ in range(rng.randint(1, 3))))
    if k == "union": return (k, tuple(gen_ann(rng, depth - 1) for _ in range(rng.randint(2, 3))))

def to_py(a):
    k = a[0]
    return {"none": lambda: None, "bool": lambda: bool, "int": lambda: int, "float": lambda: float, "str": lambda: str, "bytes": lambda: bytes,
            "any": lambda: Any, "missing": lambda: Missing, "uuid": lambda: uuid.UUID, "date": lambda: datetime.date, "enum": lambda: Col,
            "inner": lambda: Inner, "boxint": lambda: Box[int], "box": lambda: Box, "callable": lambda: Callable[[], None],
            "lit": lambda: Literal[a[1]], "seq": lambda: Sequence[to_py(a[1])], "set": lambda: Set[to_py(a[1])], "fset": lambda: frozenset[to_py(a[1])],
            "map": lambda: Mapping[to_py(a[1]), to_py(a[2])], "tupf": lambda: tuple[tuple(to_py(x) for x in a[1])], "tupv": lambda: tuple[to_py(a[1]), ...],
            "union": lambda: typing.Union[tuple(to_py(x) for x in a[1])], "opt": lambda: typing.Optional[to_py(a[1])]}[k]()

def hashable(v):
    try: hash(v); return True
    except TypeError: return False

def gen_val(rng, a, depth=0):
    """conforming value (best effort)"""
    k = a[0]
    if k == "none": return None
    if k == "bool": return rng.choice([True, False])
    if k == "int": return rng.choice([0, 1, -5, True])
    if k == "float": return rng.choice([0.0, 1.5])
    if k == "str": return rng.choice(["", "a", "ab", "xyz"])
    if k == "bytes": return rng.choice([b"", b"ab"])
    if k == "any": return rng.choice([None, 1, "s", [1], {"k": [1]}, MISSING])
    if k == "missing": return MISSING
    if k == "uuid": return uuid.UUID(int=rng.randint(0, 5))
    if k == "date": return rng.choice([datetime.date(2020, 1, 1), datetime.datetime(2020, 1, 1)])
    if k == "enum": return rng.choice(list(Col))
    if k == "inner": return rng.choice([Inner(), Inner(n=3), Sub(n=1)])
    if k == "boxint": return Box[int](v=rng.randint(0, 3))
    if k == "box": return rng.choice([Box(v="x"), Box[int](v=1), Box[str](v="s")])
    if k == "callable": return rng.choice([len, lambda: None, int])
    if k == "lit": return rng.choice(a[1])
    if k in ("seq", "tupv"):
        xs = [gen_val(rng, a[1]) for _ in range(rng.randint(0, 3))]
        return rng.choice([list, tuple])(xs)
    if k in ("set", "fset"):
        xs = [gen_val(rng, a[1]) for _ in range(rng.randint(0, 3))]
        xs = [x if hashable(x) else None for x in xs]
        if k == "fset": return frozenset(xs)
        return rng.choice([set, frozenset])(xs)
    if k == "map":
        d = {}
        for _ in range(rng.randint(0, 3)):
            kk = gen_val(rng, a[1])
            if hashable(kk): d[kk] = gen_val(rng, a[2])
        return rng.choice([dict, lambda d: MappingProxyType(dict(d))])(d)
    if k == "tupf": return rng.choice([list, tuple])([gen_val(rng, x) for x in a[1]])
    if k == "union": return gen_val(rng, rng.choice(a[1]))
    if k == "opt": return rng.choice([None, gen_val(rng, a[1])])

JUNK = [None, True, 0, 1, 1.0, "a", "ab", b"x", [1], (1, "a"), {1}, frozenset(), {"a": 1}, {"ab": "cd"}, MISSING, Col.R, SCol.A, Inner(), Box(v=1), len, uuid.UUID(int=0), [[1]], [None], ("a",), range(2), object()]
def is_seq(v): return isinstance(v, Sequence) and not isinstance(v, (str, bytes, bytearray))
def conforms(a, v):
    k = a[0]
    if k == "none": return v is None
    if k == "any": return True
    if k == "missing": return v is MISSING
    nominal = {"bool": bool, "int": int, "float": float, "str": str, "bytes": bytes, "uuid": uuid.UUID, "date": datetime.date, "enum": Col, "inner": Inner, "boxint": Box[int], "box": Box}
    if k in nominal: return isinstance(v, nominal[k])
    if k == "callable": return callable(v)
    if k == "lit": return any(type(v) is type(l) and v == l for l in a[1])
    if k in ("seq", "tupv"): return is_seq(v) and all(conforms(a[1], x) for x in v)
    if k == "set": return isinstance(v, Set) and all(conforms(a[1], x) for x in v)
    if k == "fset": return isinstance(v, Set) and all(conforms(a[1], x) for x in v)
    if k == "map": return isinstance(v, Mapping) and all(conforms(a[1], kk) and conforms(a[2], vv) for kk, vv in v.items())
    if k == "tupf": return is_seq(v) and len(v) == len(a[1]) and all(conforms(x, e) for x, e in zip(a[1], v))
    if k == "union": return any(conforms(x, v) for x in a[1])
    if k == "opt": return v is None or conforms(a[1], v)

def convert(a, v):
    k = a[0]
    if k in ("seq", "tupv"): return tuple(convert(a[1], x) for x in v)
    if k in ("set", "fset"): return frozenset(convert(a[1], x) for x in v)
    if k == "map": return {convert(a[1], kk): convert(a[2], vv) for kk, vv in v.items()}
    if k == "tupf": return tuple(convert(x, e) for x, e in zip(a[1], v))
    if k == "union":
        for x in a[1]:
            if conforms(x, v): return convert(x, v)
    if k == "opt": return None if v is None else convert(a[1], v)
    return v
def norm(v):
    if isinstance(v, MappingProxyType): return ("map", tuple((norm(k), norm(x)) for k, x in v.items()))
    if isinstance(v, dict): return ("map", tuple((norm(k), norm(x)) for k, x in v.items()))
    if isinstance(v, tuple): return ("tuple", tuple(norm(x) for x in v))
    if isinstance(v, list): return ("list", tuple(norm(x) for x in v))
    if isinstance(v, frozenset): return ("fset", tuple(sorted((repr(norm(x)) for x in v))))
    if isinstance(v, set): return ("set", tuple(sorted((repr(norm(x)) for x in v))))
    return (type(v).__name__, repr(v))

rng = random.Random(11); stats = dict(n=0, acc=0, rej=0, bad=0, clsfail=0)
for i in range(6000):
    a = gen_ann(rng, rng.randint(0, 3))
    try:
        cls = type("S", (State,), {"__annotations__": {"x": to_py(a)}})
    except BaseException as e:
        stats["clsfail"] += 1
        if stats["clsfail"] <= 3: print("CLASSFAIL", a, repr(e)[:100])
        continue
    for j in range(4):
        v = gen_val(rng, a) if rng.random() < 0.6 else rng.choice(JUNK)
        exp = conforms(a, v)
        stats["n"] += 1
        try:
            inst = cls(x=v); got = True
        except Exception as e:
            got = False
        if v is MISSING: continue   # MISSING means 'use default'
        if got != exp:
            stats["bad"] += 1
            if stats["bad"] <= 12: print("ACCEPT-MISMATCH", a, repr(v)[:60], "expected", exp, "got", got)
        elif got:
            stats["acc"] += 1
            if norm(inst.x) != norm(convert(a, v)):
                stats["bad"] += 1
                if stats["bad"] <= 12: print("VALUE-MISMATCH", a, repr(v)[:60], norm(inst.x), norm(convert(a, v)))
        else: stats["rej"] += 1
print(stats)
