import asyncio, copy, pickle, logging, sys
from collections.abc import Mapping, Sequence
from haiway import *
from haiway.context.tasks import TaskGroupContext
from haiway.context.metrics import MetricsContext
from haiway.context.state import StateContext

def section(s): print("\n==", s)

# C20
section("C20 missing copies")
print("copy is", copy.copy(MISSING) is MISSING, "deepcopy is", copy.deepcopy(MISSING) is MISSING)
for p in range(0, pickle.HIGHEST_PROTOCOL+1):
    try:
        print(p, pickle.loads(pickle.dumps(MISSING, protocol=p)) is MISSING)
    except Exception as e: print(p, "ERR", repr(e))

# C05 mapping
section("C05 mapping")
class M(State):
    m: Mapping[str, str]
try:
    print(M(m={"ab": "x"}).m)
except Exception as e: print("ERR", repr(e))
try:
    print(M(m={"abc": "x"}).m)
except Exception as e: print("ERR", repr(e))

section("C04 eq asym")
class G[T](State):
    v: T
a = G(v=1); b = G[int](v=1)
print(a == b, b == a)
class B1(State):
    x: int = 1
class D1(B1):
    y: int = 2
print(B1() == D1(), D1() == B1())

section("C04 deepcopy mapping / missing")
class S2(State):
    s: Sequence[int]
    o: int | Missing = MISSING
try:
    c = copy.deepcopy(S2(s=[1]))
    print("deepcopy ok", c, c == S2(s=[1]))
except BaseException as e: print("ERR", repr(e))
class S3(State):
    m: Mapping[str, int] | None = None
try:
    print(copy.deepcopy(S3()))
except BaseException as e: print("ERR", repr(e))

section("literal")
from typing import Literal
class L(State):
    l: Literal[1, "a"]
for v in (1, True, 1.0, "a"):
    try: print(repr(v), repr(L(l=v).l))
    except Exception as e: print(repr(v), "ERR", type(e).__name__)
import asyncio, logging, sys
from contextlib import asynccontextmanager
from haiway import *
from haiway.context.tasks import TaskGroupContext
from haiway.context.metrics import MetricsContext
from haiway.context.state import StateContext

def section(s): print("\n==", s)
class A(State):
    v: str = "defA"
class R(State):
    v: str   # required

def snap():
    def g(var):
        try: return var.get()
        except LookupError: return None
    s = g(StateContext._context); m = g(MetricsContext._context); t = g(TaskGroupContext._context)
    return (id(s) if s else None, m.label if m else None, id(t) if t else None)

async def main():
    section("C01 default caching vs explicit default")
    async with ctx.scope("s"):
        print(ctx.state(A, default=A(v="x")).v)
        print(ctx.state(A).v)
        print(ctx.state(A, default=A(v="x")).v, "<- expect x by C01")
        with ctx.updated(R(v="r")):
            print(ctx.state(A, default=A(v="y")).v, "<- inherited cached default")
        try: ctx.state(R)
        except MissingState as e: print("MissingState ok")

    section("C08 single disposable exit error")
    log = []
    class D:
        def __init__(s, name, enter=None, exit=None, st=None): s.n, s.en, s.ex, s.st = name, enter, exit, st
        async def __aenter__(s):
            log.append(("enter", s.n))
            if s.en: raise s.en
            return s.st
        async def __aexit__(s, *a):
            log.append(("exit", s.n, a[0].__name__ if a[0] else None))
            if s.ex: raise s.ex
    before = snap()
    try:
        async with ctx.scope("x", disposables=[D("d1", exit=RuntimeError("boom"))]):
            pass
        print("no error surfaced  <- C08 violation")
    except BaseException as e: print("surfaced", repr(e))
    print("ctx restored:", snap() == before, log)

    section("C08/C02 two exit errors")
    log.clear(); before = snap()
    try:
        async with ctx.scope("x", disposables=[D("d1", exit=RuntimeError("b1")), D("d2", exit=RuntimeError("b2"))]):
            pass
    except BaseException as e: print("surfaced", repr(e))
    print("ctx restored:", snap() == before, before, snap())

async def main2():
    log = []
    class D:
        def __init__(s, name, enter=None, exit=None, st=None): s.n, s.en, s.ex, s.st = name, enter, exit, st
        async def __aenter__(s):
            log.append(("enter", s.n))
            if s.en: raise s.en
            return s.st
        async def __aexit__(s, *a):
            log.append(("exit", s.n, a[0].__name__ if a[0] else None))
            if s.ex: raise s.ex
    section("C08/C02 enter error")
    before = snap()
    try:
        async with ctx.scope("x", disposables=[D("d1"), D("d2", enter=RuntimeError("e2"))]):
            print("body ran")
    except BaseException as e: print("surfaced", repr(e))
    print("ctx restored:", snap() == before, before, snap(), log)

async def main3():
    section("C07 check_cancellation")
    async def t():
        ctx.cancel()
        try:
            ctx.check_cancellation(); print("check did not raise  <- C07 violation")
        except asyncio.CancelledError: print("raised ok")
        await asyncio.sleep(0)
    try: await asyncio.create_task(t())
    except asyncio.CancelledError: print("task cancelled")

    section("C07 cancel during exit wait")
    started = asyncio.Event()
    async def child():
        try: await asyncio.sleep(100)
        except asyncio.CancelledError: print("child cancelled"); raise
    async def victim():
        async with ctx.scope("v"):
            ctx.spawn(child)
            started.set()
        print("victim continued after scope <- swallowed")
        return "returned"
    vt = asyncio.create_task(victim())
    await started.wait(); await asyncio.sleep(0.01)
    vt.cancel()
    try: print("victim result", await vt)
    except asyncio.CancelledError: print("victim cancelled ok")

asyncio.run(main())
asyncio.run(main2())
asyncio.run(main3())
import asyncio, logging, sys, time
from haiway import *
from haiway.context.metrics import MetricsContext
def section(s): print("\n==", s)
class A(State):
    v: str = "defA"

class H(logging.Handler):
    def __init__(s): super().__init__(); s.recs=[]
    def emit(s, r):
        try: s.recs.append((r.name, r.levelname, r.getMessage()))
        except Exception as e: s.recs.append(("LOST", repr(e)))
h = H(); logging.getLogger().addHandler(h); logging.getLogger().setLevel(logging.DEBUG)

async def c09():
    section("C09 late child after parent completed")
    fired = []
    gate = asyncio.Event()
    async def late():
        await gate.wait()
        try:
            with ctx.scope("late", completion=lambda m: fired.append("late")):
                pass
            print("late child exit ok")
        except BaseException as e: print("late child exit raised", repr(e))
    async with ctx.scope("parent", completion=lambda m: fired.append("parent")):
        t = asyncio.create_task(late())
        await asyncio.sleep(0)
    await asyncio.sleep(0); print("fired", fired)
    gate.set(); await t
    await asyncio.sleep(0); print("fired", fired)

    section("C09 created-but-never-entered child")
    fired.clear()
    async with ctx.scope("parent2", completion=lambda m: fired.append("parent2")):
        sc = ctx.scope("never")
    await asyncio.sleep(0.01); print("fired", fired, "<- parent2 never completes?")

async def c19():
    section("C19 trace ids")
    ids = []
    async with ctx.scope("outer", trace_id="T1", completion=lambda m: ids.append(("outer", m.trace_id))):
        async with ctx.scope("inner", completion=lambda m: ids.append(("inner", m.trace_id))):
            ctx.log_info("hello %s", "w")
    await asyncio.sleep(0); print(ids)
    h.recs.clear()
    async with ctx.scope("50%d"):
        ctx.log_info("hello %s", "w")
        ctx.log_info("plain 100%")
    print([r for r in h.recs])

async def c11():
    section("C11 stream state")
    async def gen():
        yield ctx.state(A).v
        yield ctx.state(A).v
    async with ctx.scope("creator", A(v="creator")):
        s = ctx.stream(gen)
    async with ctx.scope("consumer", A(v="consumer")):
        out = []
        async for x in s:
            out.append(x)
            out.append(("consumer sees label", MetricsContext._context.get().label))
        print(out)
        print("after:", MetricsContext._context.get().label, ctx.state(A).v)

async def c15():
    section("C15 throttle")
    starts = []
    t0 = time.monotonic()
    @throttle(limit=1, period=0.2)
    async def f(i): starts.append(round(time.monotonic()-t0, 2))
    await asyncio.gather(*[f(i) for i in range(3)])
    print(starts, "<- expected ~[0, .2, .4]")

async def c16():
    section("C16 self-cancelling function")
    @timeout(0.2)
    async def f(): raise asyncio.CancelledError()
    try:
        print(await asyncio.wait_for(f(), 1))
    except BaseException as e: print("outer got", repr(e))
    class BE(BaseException): pass
    @timeout(0.2)
    async def g(): raise BE()
    try:
        print(await asyncio.wait_for(g(), 1))
    except BaseException as e: print("outer got", repr(e))

async def c17():
    section("C17 lost element on cancel after handoff")
    q = AsyncQueue()
    got = []
    async def consume():
        async for x in q: got.append(x)
    t = asyncio.create_task(consume()); await asyncio.sleep(0)
    q.enqueue(1); t.cancel()
    try: await t
    except asyncio.CancelledError: pass
    q.enqueue(2); q.finish()
    async for x in q: got.append(x)
    print(got, "<- expected [1, 2]")

async def c14():
    section("C14 int delay")
    calls = []
    @retry(limit=2, delay=0)
    async def f():
        calls.append(1)
        if len(calls) < 2: raise ValueError("x")
        return "ok"
    try: print(await f(), calls)
    except BaseException as e: print("ERR", repr(e), calls)

async def c18():
    section("C18 method context")
    class C:
        @asynchronous
        def m(self): 
            try: return ctx.state(A).v
            except BaseException as e: return repr(e)
    @asynchronous
    def fn():
        return ctx.state(A).v
    async with ctx.scope("s", A(v="scoped")):
        print(await fn(), await C().m())
    section("C18 traced kwargs")
    @traced
    def tf(a, b=1): return a + b
    async with ctx.scope("s"):
        try: print(tf(1, b=2))
        except BaseException as e: print("ERR", type(e).__name__, e)
        try: print(tf(1, 2))
        except BaseException as e: print("ERR", type(e).__name__, e)

async def c12():
    section("C12 equal receivers")
    from dataclasses import dataclass
    @dataclass(frozen=True)
    class Rcv:
        k: int
        @cache(limit=4)
        def m(self, x): return (id(self), x)
    a, b = Rcv(1), Rcv(1)
    print(a.m(1)[0] == id(a), b.m(1)[0] == id(b), "<- second should be True")

for f in (c09, c19, c11, c15, c16, c17, c14, c18, c12):
    try: asyncio.run(f())
    except BaseException as e: print("TOP ERR", f.__name__, repr(e))
import copy, typing, enum
from collections.abc import Mapping, Sequence, Set, Callable
from typing import Literal, Any, Protocol, runtime_checkable
from haiway import *
def section(s): print("\n==", s)
def tryc(cls, **kw):
    try:
        o = cls(**kw); return ("ok", {k: getattr(o,k) for k in cls.__ATTRIBUTES__})
    except BaseException as e: return ("ERR", type(e).__name__, str(e)[:80])

section("parametrised alias")
type L[T] = Sequence[T]
type P = int | str
class S1(State):
    a: L[int]
    p: P = 1
print(S1.__ATTRIBUTES__['a'].annotation, tryc(S1, a=["x"]), tryc(S1, a=[1]), tryc(S1, a=[1], p=2.0))

section("typing.Sequence")
try:
    class S2(State):
        a: typing.Sequence[int]
    print(tryc(S2, a=[1]))
except BaseException as e: print("class creation ERR", repr(e))

section("deepcopy mapping")
class S3(State):
    m: Mapping[str, int]
try:
    s = S3(m={"ab": 1}); print(s)
except BaseException as e: print("ERR", repr(e))
from types import MappingProxyType
try: copy.deepcopy(MappingProxyType({}))
except BaseException as e: print("deepcopy mappingproxy ERR", repr(e))

section("tuples")
class S4(State):
    t: tuple[int, str]
    v: tuple[int, ...] = ()
print(tryc(S4, t=(1, "a")), tryc(S4, t=[1, "a"]), tryc(S4, t=(1,)), tryc(S4, t=(1, 2)), tryc(S4, t=(1,"a"), v=[1,2]), tryc(S4, t="ab"))
try:
    class S5(State):
        t: tuple[()]
    print(tryc(S5, t=()))
except BaseException as e: print("tuple[()] ERR", repr(e))

section("nested generic")
class Box[T](State):
    v: T
class Holder(State):
    b: Box[int]
    any_b: Box
print(tryc(Holder, b=Box[int](v=1), any_b=Box(v="s")), tryc(Holder, b=Box(v=1), any_b=Box[str](v="s")), tryc(Holder, b=Box[str](v="s"), any_b=Box(v=1)))
class GH[T](State):
    b: Box[T]
    s: Sequence[T]
print(GH[int].__ATTRIBUTES__['b'].annotation, GH[int].__ATTRIBUTES__['s'].annotation, tryc(GH[int], b=Box[int](v=1), s=[1]), tryc(GH[int], b=Box[int](v=1), s=["x"]), tryc(GH, b=Box(v=1), s=["x"]))

section("set of seq, mapping nested")
class S6(State):
    s: Set[Sequence[int]]
    f: frozenset[int] = frozenset()
print(tryc(S6, s={(1,2)}), tryc(S6, s=[(1,2)]), tryc(S6, s={(1,2)}, f={1}), tryc(S6, s={(1,2)}, f=[1]))

section("enum/str mixin literal")
class Col(str, enum.Enum):
    R = "r"
class S7(State):
    l: Literal["r"]
    e: Col = Col.R
print(tryc(S7, l=Col.R), tryc(S7, l="r", e="r"))

section("bool for int, int for float")
class S8(State):
    i: int = 0
    f: float = 0.0
    b: bool = False
print(tryc(S8, i=True), tryc(S8, f=1), tryc(S8, b=1))

section("defaults validated")
try:
    class S9(State):
        i: int = "notint"
    print(tryc(S9))
except BaseException as e: print("class creation ERR", repr(e))

section("mutation of original")
class S10(State):
    s: Sequence[Sequence[int]]
    a: Sequence[Any] = ()
inner=[1]; outer=[inner]; x = S10(s=outer, a=outer)
inner.append(2); outer.append([3]); print(x.s, x.a)
import asyncio
from haiway import *
def section(s): print("\n==", s)
class A(State):
    v: str = "defA"

async def a():
    section("child failure while body waits")
    async def child(): raise RuntimeError("child")
    async def victim():
        try:
            async with ctx.scope("v"):
                ctx.spawn(child)
                await asyncio.sleep(1)
                print("body continued")
        except BaseException as e:
            print("victim saw", type(e).__name__, "cancelling=", asyncio.current_task().cancelling())
            raise
    t = asyncio.create_task(victim())
    try: await t
    except BaseException as e: print("outer", type(e).__name__, t.cancelled())

    section("spawn from detached task after scope exit")
    gate = asyncio.Event()
    async def late():
        await gate.wait()
        async def x(): return 1
        try:
            t = ctx.spawn(x); print("spawned", await t)
        except BaseException as e: print("spawn ERR", repr(e))
    async with ctx.scope("s"):
        lt = asyncio.create_task(late()); await asyncio.sleep(0)
    gate.set(); await lt

    section("disposables: one fails while other suspended")
    log = []
    class D:
        def __init__(s, n, delay=0, fail=False): s.n, s.d, s.f = n, delay, fail
        async def __aenter__(s):
            log.append(("enter-start", s.n)); await asyncio.sleep(s.d)
            if s.f: raise RuntimeError(s.n)
            log.append(("entered", s.n)); return A(v=s.n)
        async def __aexit__(s, *a): log.append(("exit", s.n))
    try:
        async with ctx.scope("x", disposables=[D("slow", 0.05), D("bad", 0.01, True)]):
            print("body")
    except BaseException as e: print("ERR", repr(e))
    await asyncio.sleep(0.1); print(log)

    section("record after completion / outside")
    ctx.record(A(v="outside"))
    held = []
    async with ctx.scope("p", completion=lambda m: held.append(m)):
        async def later():
            await asyncio.sleep(0.01)
            ctx.record(A(v="late")); return "ok"
        lt = asyncio.create_task(later())
    print(await lt, held[0].read(A))

    section("sync scope with disposables / ctx.scope sync outside loop thread")
    try:
        with ctx.scope("x", disposables=[D("d")]): pass
    except BaseException as e: print("ERR", type(e).__name__, e)

    section("merged view order")
    class M(State):
        v: str = ""
    out = []
    def done(m): out.append([x.v for x in m.metrics(merge=lambda cur, new: new if cur is MISSING else M(v=cur.v + new.v))])
    async with ctx.scope("root", completion=done):
        ctx.record(M(v="r"))
        async with ctx.scope("c1"):
            ctx.record(M(v="a"))
            async with ctx.scope("g1"): ctx.record(M(v="b"))
        async with ctx.scope("c2"): ctx.record(M(v="c"))
        ctx.record(M(v="R"), merge=lambda l, r: M(v=l.v + r.v))
    await asyncio.sleep(0); print(out)
asyncio.run(a())
