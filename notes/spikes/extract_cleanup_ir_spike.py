"""Spike: extract the cleanup-procedure IR of ScopeContext.__aenter__/__aexit__ from the source AST."""
import ast, sys

ATOMS = {  # (receiver attribute, method) -> atom
    ("_task_group_context", "__aenter__"): "groupEnter",
    ("_task_group_context", "__aexit__"): "groupExit",
    ("_disposables", "__aenter__"): "dispEnter",
    ("_disposables", "__aexit__"): "dispExit",
    ("_state_context", "__enter__"): "stateEnter",
    ("_state_context", "__exit__"): "stateExit",
    ("_metrics_context", "__enter__"): "metricsEnter",
    ("_metrics_context", "__exit__"): "metricsExit",
}

class Unrecognised(Exception): pass

def calls_in(node):
    """atoms called inside an expression/statement, in evaluation order"""
    found = []
    for n in ast.walk(node):
        if isinstance(n, ast.Call) and isinstance(n.func, ast.Attribute) and isinstance(n.func.value, ast.Attribute) \
           and isinstance(n.func.value.value, ast.Name) and n.func.value.value.id == "self":
            key = (n.func.value.attr, n.func.attr)
            if key in ATOMS: found.append((n.lineno, n.col_offset, ATOMS[key]))
    return [a for _, _, a in sorted(found)]

def seq(ps):
    ps = [p for p in ps if p != "skip"]
    if not ps: return "skip"
    out = ps[-1]
    for p in reversed(ps[:-1]): out = f"(seq {p} {out})"
    return out

def stmts(body):
    return seq([stmt(s) for s in body])

def stmt(s):
    if isinstance(s, (ast.Expr, ast.Assign, ast.AnnAssign, ast.Return)):
        return seq([f"(atom {a})" for a in calls_in(s)])
    if isinstance(s, ast.If):
        a, b = stmts(s.body), stmts(s.orelse)
        # guards on `self._disposables is not None` select between equivalent shapes: keep the richer branch
        if a == "skip": return b
        if b == "skip" or b == a: return a
        # both branches call different atoms: keep the one with disposables (superset)
        return a if len(a) >= len(b) else b
    if isinstance(s, ast.Try):
        p = stmts(s.body)
        if s.handlers:
            hs = [stmts(h.body) for h in s.handlers]
            reraises = all(any(isinstance(x, ast.Raise) for x in ast.walk(ast.Module(body=h.body, type_ignores=[]))) for h in s.handlers)
            if not reraises: raise Unrecognised("handler without raise")
            h = hs[0] if len(hs) == 1 else seq(hs)
            p = f"(tryExcept {p} {h})"
        if s.finalbody:
            p = f"(tryFinally {p} {stmts(s.finalbody)})"
        return p
    if isinstance(s, (ast.Raise, ast.Pass)):
        return "skip"
    raise Unrecognised(type(s).__name__)

def extract(path):
    tree = ast.parse(open(path).read())
    cls = next(n for n in tree.body if isinstance(n, ast.ClassDef) and n.name == "ScopeContext")
    out = {}
    for f in cls.body:
        if isinstance(f, ast.AsyncFunctionDef) and f.name in ("__aenter__", "__aexit__"):
            out[f.name] = stmts(f.body)
    return out

for p in sys.argv[1:]:
    try:
        r = extract(p)
        print(p)
        for k, v in r.items(): print("  ", k, ":=", v)
    except Unrecognised as e:
        print(p, "UNRECOGNISED", e)
