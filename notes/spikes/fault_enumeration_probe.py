import sys, itertools, collections
sys.path.insert(0, "/tmp/probe")
import vloop
from vloop import CLOCK, VLoop
import asyncio
from haiway import *
from haiway.context.tasks import TaskGroupContext
from haiway.context.metrics import MetricsContext
from haiway.context.state import StateContext

class A(State):
    v: str = "defA"

def snap():
    def g(var):
        try: return var.get()
        except LookupError: return None
    s = g(StateContext._context); m = g(MetricsContext._context); t = g(TaskGroupContext._context)
    return (id(s) if s else None, m.label if m else None, id(t) if t else None)

class Boom(Exception): pass

def run(spec):
    # spec: disp: list of (enter, exit) in {ok, raise, gate}; body in {ok, raise, gate}; child in {none, gate, fail}; cancel_at: gate name or None
    loop = VLoop(); asyncio.set_event_loop(loop)
    gates = {}
    def gate(name):
        f = loop.create_future(); gates[name] = f; return f
    log = []
    class D:
        def __init__(s, i, en, ex): s.i, s.en, s.ex = i, en, ex
        async def __aenter__(s):
            log.append(f"enter{s.i}")
            if s.en == "raise": raise Boom(f"enter{s.i}")
            if s.en == "gate": await gate(f"den{s.i}")
            log.append(f"entered{s.i}")
            return A(v=f"d{s.i}")
        async def __aexit__(s, et, ev, tb):
            log.append(f"exit{s.i}:{et.__name__ if et else None}")
            if s.ex == "raise": raise Boom(f"exit{s.i}")
            if s.ex == "gate": await gate(f"dex{s.i}")
    children = []
    async def child(kind):
        try:
            if kind == "fail":
                await gate("childfail"); raise Boom("child")
            await gate("child")
        except asyncio.CancelledError:
            log.append("child-cancelled"); raise
    res = {}
    async def victim():
        async with ctx.scope("outer", A(v="outer")):
            before = snap()
            res["before"] = before
            try:
                async with ctx.scope("inner", disposables=[D(i, en, ex) for i, (en, ex) in enumerate(spec["disp"])]):
                    log.append("body")
                    if spec["child"] != "none":
                        children.append(ctx.spawn(child, spec["child"]))
                    if spec["body"] == "raise": raise Boom("body")
                    if spec["body"] == "gate": await gate("body")
                log.append("left-ok")
            except BaseException as e:
                log.append(f"left:{type(e).__name__}:{e}")
                res["exc"] = e
            finally:
                res["after"] = snap()
                res["children_done"] = [c.done() for c in children]
            if isinstance(res.get("exc"), asyncio.CancelledError): raise res["exc"]
    vt = loop.create_task(victim())
    loop.quiesce()
    cancelled_at = None
    # release gates in deterministic order, injecting cancel when the chosen gate is pending
    for _ in range(20):
        pend = [n for n, f in gates.items() if not f.done()]
        if not pend: break
        n = pend[0]
        if spec["cancel_at"] == n and cancelled_at is None:
            vt.cancel(); cancelled_at = n
        else:
            gates[n].set_result(None)
        loop.quiesce()
    loop.quiesce(advance=True)
    out = dict(done=vt.done(), cancelled=vt.done() and vt.cancelled(), restored=res.get("after") == res.get("before"),
               children_done=res.get("children_done"), log=log, cancelled_at=cancelled_at)
    for t in asyncio.all_tasks(loop): t.cancel()
    loop.quiesce(); loop.close()
    return out

opts = ["ok", "raise", "gate"]
issues = collections.Counter(); examples = {}
n = 0
for nd in (0, 1, 2):
    for disp in itertools.product(itertools.product(opts, opts), repeat=nd):
        for body in opts:
            for ch in ("none", "gate", "fail"):
                gate_names = [f"den{i}" for i,(en,ex) in enumerate(disp) if en=="gate"] + [f"dex{i}" for i,(en,ex) in enumerate(disp) if ex=="gate"] + (["body"] if body=="gate" else []) + (["child"] if ch=="gate" else []) + (["childfail"] if ch=="fail" else [])
                for cancel_at in [None] + gate_names:
                    spec = dict(disp=list(disp), body=body, child=ch, cancel_at=cancel_at)
                    try: o = run(spec)
                    except Exception as e:
                        issues["harness-error"] += 1; examples.setdefault("harness-error", (spec, repr(e))); continue
                    n += 1
                    lg = o["log"]
                    probs = []
                    if not o["done"]: probs.append("hang")
                    if not o["restored"]: probs.append("ctx-not-restored")
                    if o["children_done"] is not None and not all(o["children_done"]): probs.append("child-outlives")
                    for i in range(nd):
                        entered = f"entered{i}" in lg; exits = sum(1 for x in lg if x.startswith(f"exit{i}:"))
                        if entered and exits != 1: probs.append("entered-not-exited-once")
                        if not entered and exits != 0 and not (disp[i][0]=="gate"): probs.append("exit-without-enter")
                    body_ran = "body" in lg
                    if body_ran and not all(f"entered{i}" in lg for i in range(nd)): probs.append("body-ran-with-unentered")
                    if o["cancelled_at"] and not o["cancelled"]: probs.append("cancel-lost")
                    if any(x.startswith("exit") and disp[int(x[4])][1]=="raise" for x in lg) and not any(x.startswith("left:") for x in lg): probs.append("cleanup-error-vanished")
                    for p in probs:
                        issues[p] += 1; examples.setdefault(p, (spec, o))
print("cases", n); print(issues)
for k, v in examples.items(): print("\n", k, v)

print("\n--- cancel-lost breakdown")
cnt = collections.Counter()
for nd in (0, 1, 2):
    for disp in itertools.product(itertools.product(opts, opts), repeat=nd):
        for body in opts:
            for ch in ("none", "gate", "fail"):
                gate_names = [f"den{i}" for i,(en,ex) in enumerate(disp) if en=="gate"] + [f"dex{i}" for i,(en,ex) in enumerate(disp) if ex=="gate"] + (["body"] if body=="gate" else []) + (["child"] if ch=="gate" else []) + (["childfail"] if ch=="fail" else [])
                for cancel_at in gate_names:
                    spec = dict(disp=list(disp), body=body, child=ch, cancel_at=cancel_at)
                    o = run(spec)
                    if o["cancelled_at"] and not o["cancelled"]:
                        raising = any(en=="raise" or ex=="raise" for en,ex in disp)
                        cnt[(raising, body, ch)] += 1
                        if not raising: print(spec, o["log"])
print(cnt)
