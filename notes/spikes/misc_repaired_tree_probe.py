import sys, asyncio, logging, copy, pickle, random, threading
sys.path.insert(0, "/tmp/probe")
from collections.abc import Sequence, Set, Mapping
from typing import Any
from haiway import *
def section(s): print("\n==", s)

class H(logging.Handler):
    def __init__(s): super().__init__(); s.recs=[]; s.lost=[]
    def emit(s, r):
        try: s.recs.append((r.name, r.levelname, r.getMessage(), bool(r.exc_info)))
        except Exception as e: s.lost.append(repr(e))
root = H(); logging.getLogger().addHandler(root); logging.getLogger().setLevel(logging.DEBUG)

async def c19():
    section("C19")
    ha = H(); la = logging.getLogger("custom.a"); la.addHandler(ha); la.propagate = False; la.setLevel(logging.DEBUG)
    ids = {}
    def keep(name): return lambda m: ids.__setitem__(name, (m.trace_id, m.identifier))
    root.recs.clear()
    async with ctx.scope("outer", completion=keep("outer")):
        ctx.log_info("o1")
        async with ctx.scope("mid", logger=la, completion=keep("mid")):
            ctx.log_warning("m1 %s %d", "x", 3)
            with ctx.scope("in%ner", trace_id="TID", completion=keep("inner")):
                ctx.log_error("i1 %s", "y", exception=ValueError("v"))
                ctx.log_debug("plain 100%")
                async def sp(): ctx.log_info("from spawned %s", 1)
                await ctx.spawn(sp)
            with ctx.scope("", completion=keep("empty")):
                ctx.log_info("in empty name")
    ctx.log_info("outside %s", "z")
    await asyncio.sleep(0)
    print("ids", {k: (v[0][:6], v[1][:6]) for k, v in ids.items()})
    print("trace inherit: mid==outer", ids["mid"][0] == ids["outer"][0], "inner==TID", ids["inner"][0] == "TID", "empty==outer", ids["empty"][0] == ids["outer"][0])
    for r in root.recs: print("  ROOT", r[0], r[1], r[2][:70].replace(ids["outer"][0], "<T>"), r[3])
    for r in ha.recs: print("  A   ", r[0], r[1], r[2][:70].replace(ids["outer"][0], "<T>"), r[3])
    print("lost", root.lost, ha.lost)

async def c10():
    section("C10")
    class M(State):
        v: str = ""
    class N(State):
        n: int = 0
    out = {}
    def keep(name):
        def cb(m):
            out[name] = (m.read(M), m.read(N), sorted(type(x).__name__ + ":" + str(getattr(x, "v", getattr(x, "n", ""))) for x in m.metrics(merge=lambda c, n: n if c is MISSING else (M(v=c.v + "|" + n.v) if isinstance(n, M) else N(n=c.n + n.n)))))
        return cb
    cat = lambda l, r: M(v=l.v + r.v)
    def bad(l, r): raise RuntimeError("merge")
    g = asyncio.get_running_loop().create_future()
    async with ctx.scope("root", completion=keep("root")):
        ctx.record(M(v="a"), merge=cat)
        async def child():
            ctx.record(M(v="c1"), merge=cat)
            async with ctx.scope("cs", completion=keep("cs")):
                ctx.record(M(v="x"), merge=cat); await g; ctx.record(M(v="y"), merge=cat)
            ctx.record(M(v="c2"), merge=cat)
        t = ctx.spawn(child)
        await asyncio.sleep(0)
        ctx.record(M(v="b"), merge=cat)
        ctx.record(N(n=1)); ctx.record(N(n=5), merge=lambda l, r: N(n=l.n + r.n))
        ctx.record(M(v="!"), merge=bad)
        g.set_result(None)
    ctx.record(M(v="outside"))
    await asyncio.sleep(0)
    print(out)

async def c18():
    section("C18")
    class S(State):
        v: str = "d"
    main_thread = threading.get_ident()
    @asynchronous
    def f(a, b=2, *args, k=0, **kw):
        """doc f"""
        with ctx.updated(S(v="inner")):
            pass
        return (a, b, args, k, kw, ctx.state(S).v, threading.get_ident() != main_thread)
    @asynchronous
    def boom(): raise KeyError("k")
    class C:
        @asynchronous
        def m(self, x): return (x, ctx.state(S).v)
        @traced
        async def am(self, x): return x * 2
    @traced
    def tf(a, *, k=1):
        "doc tf"
        return a + k
    @wrap_async
    def w(a): return a + 1
    beats = []
    async def heartbeat():
        for _ in range(3): beats.append(1); await asyncio.sleep(0.001)
    res = {}
    def keep(m): res["m"] = [type(x).__name__ for x in m.metrics(merge=lambda c, n: n)]
    async with ctx.scope("s", S(v="scoped"), completion=keep):
        hb = asyncio.create_task(heartbeat())
        print(await f(1, 3, 4, k=5, z=6))
        try: await boom()
        except KeyError as e: print("boom ok", repr(e))
        print(await C().m(7), await C().am(4), tf(1, k=2), await w(1))
        print("caller state after", ctx.state(S).v, "beats", len(beats))
        await hb
    await asyncio.sleep(0)
    print("names", f.__name__, f.__doc__, f.__wrapped__.__name__, tf.__name__, tf.__doc__, tf.__wrapped__.__name__, w.__name__, C.m.__name__ if hasattr(C.m, "__name__") else None)
    print("traced metrics", res)

def c04():
    section("C04/C20")
    class S(State):
        seq: Sequence[Sequence[int]]
        st: Set[str]
        mp: Mapping[str, Sequence[int]]
        opt: int | Missing = MISSING
    a, b, c = [[1], [2]], {"x"}, {"k": [1]}
    s = S(seq=a, st=b, mp=c)
    a[0].append(9); a.append([3]); b.add("y"); c["k"].append(2); c["z"] = [0]
    print(s)
    for act in ("s.seq = 1", "del s.seq", "s.new = 1", "s.mp['k'] = 1", "s.st.add('q')", "s.seq[0].append(1)"):
        try: exec(act); print(act, "-> ALLOWED")
        except Exception as e: print(act, "->", type(e).__name__)
    u = s.updated(opt=5, unknown=1)
    print("updated", u.opt, s.opt is MISSING, u.seq == s.seq, u == s, s.updated() == s)
    try: s.updated(opt="bad"); print("invalid update ALLOWED")
    except Exception as e: print("invalid update rejected", type(e).__name__)
    print("copy eq", copy.copy(s) == s, "deepcopy eq", copy.deepcopy(s) == s, "as_dict", s.as_dict().keys())
    nested = {"a": [MISSING, (MISSING, {"b": MISSING})], "s": S(seq=[], st=set(), mp={})}
    d = copy.deepcopy(nested)
    print("deepcopy nested MISSING identity", d["a"][0] is MISSING, d["a"][1][0] is MISSING, d["a"][1][1]["b"] is MISSING, d["s"].opt is MISSING)
    for p in range(pickle.HIGHEST_PROTOCOL + 1):
        r = pickle.loads(pickle.dumps([MISSING, {"k": MISSING}], protocol=p))
        assert r[0] is MISSING and r[1]["k"] is MISSING
    print("pickle ok; Missing() is MISSING", Missing() is MISSING, bool(MISSING), MISSING == MISSING, MISSING == None, MISSING != 0)
    class AlwaysEq:
        def __eq__(s, o): return True
    print("is_missing lookalikes", [is_missing(x) for x in (None, False, 0, "", [], AlwaysEq(), MISSING)], when_missing(MISSING, 1), when_missing(None, 1), MISSING == AlwaysEq())
    for act in ("MISSING.x", "MISSING.x = 1", "del MISSING.x"):
        try: exec(act); print(act, "ALLOWED")
        except AttributeError: print(act, "-> AttributeError")

asyncio.run(c19()); asyncio.run(c10()); asyncio.run(c18()); c04()
