import sys, random
sys.path.insert(0, "/tmp/probe")
import vloop
from vloop import CLOCK, VLoop
import asyncio
from haiway import ctx, State, MissingState, MissingContext

class A(State):
    v: str = "dA"
class B(State):
    v: str = "dB"
class R(State):
    v: str
class G[T](State):
    v: T
GI, GS = G[int], G[str]
TYPES = [A, B, R, GI, GS]
def mk(rng, T, tag):
    if T is GI: return GI(v=hash(tag) % 100)
    return T(v=tag)

class Disp:
    def __init__(s, states): s.states = states
    async def __aenter__(s):
        return s.states if len(s.states) != 1 else s.states[0]
    async def __aexit__(s, *a): pass

def gen(rng, depth, counter):
    stmts = []
    for _ in range(rng.randint(1, 4)):
        r = rng.random()
        if r < 0.4 or depth == 0:
            T = rng.choice(TYPES); d = None
            if rng.random() < 0.3: counter[0] += 1; d = mk(rng, T, f"def{counter[0]}")
            stmts.append(("probe", T, d))
        elif r < 0.55:
            stmts.append(("yield",))
        else:
            kind = rng.choice(["ascope", "sscope", "upd", "task"])
            sup = []
            for _ in range(rng.randint(0, 3)):
                counter[0] += 1; T = rng.choice(TYPES); sup.append(mk(rng, T, f"s{counter[0]}"))
            ds = []
            if kind == "ascope" and rng.random() < 0.4:
                for _ in range(rng.randint(1, 2)):
                    counter[0] += 1; ds.append([mk(rng, rng.choice(TYPES), f"d{counter[0]}") for _ in range(rng.randint(0, 2))])
            stmts.append((kind, sup, ds, gen(rng, depth - 1, counter)))
    return stmts

def spec_lookup(env, T, d):
    if env is None: return ("MissingContext",)
    for frame in reversed(env):
        for inst in reversed(frame):
            if type(inst) is T: return ("val", repr(inst))
    if d is not None: return ("val", repr(d))
    try: return ("val", repr(T()))
    except Exception: return ("MissingState",)

async def run(stmts, env, out, pending, rng_sched):
    for st in stmts:
        if st[0] == "probe":
            _, T, d = st
            try: got = ("val", repr(ctx.state(T, default=d) if d is not None else ctx.state(T)))
            except MissingState: got = ("MissingState",)
            except MissingContext: got = ("MissingContext",)
            exp = spec_lookup(env, T, d)
            out.append((got, exp))
        elif st[0] == "yield":
            await asyncio.sleep(0)
        else:
            kind, sup, ds, body = st
            inner = (env or []) + [sup + [x for d in ds for x in d]]
            if kind == "ascope":
                async with ctx.scope("s", *sup, disposables=[Disp(d) for d in ds] if ds else None):
                    await run(body, inner, out, pending, rng_sched)
            elif kind == "sscope":
                with ctx.scope("s", *sup):
                    await run(body, inner, out, pending, rng_sched)
            elif kind == "upd":
                if env is None:
                    # ctx.updated outside scope creates fresh context
                    pass
                with ctx.updated(*sup):
                    await run(body, inner, out, pending, rng_sched)
            elif kind == "task":
                # child task inherits snapshot (env as of now); runs concurrently
                t = (ctx.spawn if rng_sched.random() < 0.5 else (lambda f, *a: asyncio.get_running_loop().create_task(f(*a))))(run, body, (None if env is None else list(env)), out, pending, rng_sched)
                pending.append(t)

bad = 0; total = 0
for seed in range(1500):
    rng = random.Random(seed)
    loop = VLoop(); asyncio.set_event_loop(loop)
    prog = gen(rng, 3, [0]); out = []; pending = []
    top_in_scope = rng.random() < 0.8
    async def main():
        if top_in_scope:
            async with ctx.scope("root"):
                await run(prog, [[]], out, pending, rng)
                # plain tasks may outlive; wait for them all here to keep simple
                while any(not t.done() for t in pending): await asyncio.sleep(0)
        else:
            await run(prog, None, out, pending, rng)
            while any(not t.done() for t in pending): await asyncio.sleep(0)
    t = loop.create_task(main()); loop.quiesce(advance=True)
    if not t.done() or t.exception():
        bad += 1
        if bad <= 5: print("seed", seed, "main failed", t.done() and repr(t.exception()))
    for g, e in out:
        total += 1
        if g != e:
            bad += 1
            if bad <= 8: print("seed", seed, g, e)
    loop.close()
print("probes", total, "bad", bad)
