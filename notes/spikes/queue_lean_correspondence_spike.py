"""End-to-end spike: real AsyncQueue vs the compiled Lean model through the line protocol."""
import sys, random, itertools, subprocess
sys.path.insert(0, "/tmp/probe")
import vloop
from vloop import CLOCK, VLoop
import asyncio
from haiway import AsyncQueue
class Err(Exception): pass
TOK = {"e1": ("enq", 1), "e2": ("enq", 2), "fin": ("fin",), "finerr": ("finerr",), "cancelq": ("cancelq",), "recv": ("recv",), "cancelrecv": ("cancelrecv",), "run": ("run",)}

def run_real(toks):
    loop = VLoop(); asyncio.set_event_loop(loop)
    q = AsyncQueue(loop=loop); got = []; state = {"task": None}
    async def recv():
        try: got.append(f"elem:{await q.__anext__()}")
        except StopAsyncIteration: got.append("stop")
        except Err: got.append("err")
        except asyncio.CancelledError: got.append("cancelled"); raise
    nxt = 0
    for tok in toks:
        op = TOK[tok]; k = op[0]
        if k == "enq":
            vals = list(range(nxt, nxt + op[1])); nxt += op[1]
            try: q.enqueue(*vals)
            except RuntimeError: nxt -= 0
        elif k == "fin": q.finish()
        elif k == "finerr": q.finish(Err("e"))
        elif k == "cancelq": q.cancel()
        elif k == "recv":
            t = state["task"]
            if t is None or t.done(): state["task"] = loop.create_task(recv())
        elif k == "cancelrecv":
            t = state["task"]
            if t is not None and not t.done(): t.cancel()
        elif k == "run": loop.quiesce()
    loop.quiesce()
    t = state["task"]; blocked = t is not None and not t.done()
    snap = " ".join(got)
    if blocked: t.cancel(); loop.quiesce()
    loop.close()
    return f"{snap}|{'blocked' if blocked else 'free'}"

cases = []
alphabet = list(TOK)
for L in range(1, 5):
    cases += [list(c) for c in itertools.product(alphabet, repeat=L)]
rng = random.Random(1)
cases += [[rng.choice(alphabet) for _ in range(rng.randint(5, 40))] for _ in range(5000)]
inp = "\n".join(" ".join(c) for c in cases) + "\n"
out = subprocess.run(["/tmp/spike/hw/.lake/build/bin/qdrv"], input=inp, capture_output=True, text=True).stdout.splitlines()
assert len(out) == len(cases), (len(out), len(cases))
bad = 0
for c, m in zip(cases, out):
    r = run_real(c)
    if r != m:
        bad += 1
        if bad <= 5: print("DIFF", " ".join(c), "\n  real ", r, "\n  model", m)
print("cases", len(cases), "bad", bad)
