import sys, random, itertools
sys.path.insert(0, "/tmp/probe")
import vloop
from vloop import CLOCK, VLoop
import asyncio
from haiway import AsyncQueue

class Err(Exception): pass

def run_real(ops):
    loop = VLoop(); asyncio.set_event_loop(loop)
    q = AsyncQueue(loop=loop)
    got = []          # consumer observations
    state = {"task": None}
    out = []
    async def recv():
        try:
            x = await q.__anext__()
            got.append(("elem", x))
        except StopAsyncIteration: got.append(("stop",))
        except Err as e: got.append(("err", str(e)))
        except asyncio.CancelledError:
            got.append(("cancelled",)); raise
    nxt = 0
    for op in ops:
        k = op[0]
        if k == "enq":
            vals = list(range(nxt, nxt + op[1])); nxt += op[1]
            try: q.enqueue(*vals); out.append("ok")
            except RuntimeError: out.append("rt")
        elif k == "fin": q.finish(); out.append("ok")
        elif k == "finerr": q.finish(Err("e")); out.append("ok")
        elif k == "cancelq": q.cancel(); out.append("ok")
        elif k == "recv":
            t = state["task"]
            if t is not None and not t.done(): out.append("busy"); continue
            state["task"] = loop.create_task(recv()); out.append("ok")
        elif k == "cancelrecv":
            t = state["task"]
            if t is None or t.done(): out.append("noop")
            else: t.cancel(); out.append("ok")
        elif k == "run":
            loop.quiesce(); out.append("ok")
    loop.quiesce()
    t = state["task"]
    pending = t is not None and not t.done()
    snapshot = list(got)
    if pending: t.cancel(); loop.quiesce()
    loop.close()
    return snapshot, out, pending

def run_model(ops):
    # reference model (what the Lean model will be)
    buf = []; waiting = None  # None | ["pending"] | ["res", x] | ["exc", r] | ["cancelled"]
    reason = None
    consumer = "idle"   # idle | scheduled | blocked ; mustCancel flag
    must = False
    got = []; out = []; nxt = 0
    def wake():
        nonlocal consumer, waiting, must, buf
        if consumer == "scheduled":
            # task first step: runs __anext__ synchronously to first await
            if must:
                # cancelled before start: coroutine never runs body? Task cancelled before first step -> CancelledError thrown at start
                consumer = "idle"; must = False; return   # coroutine never started: nothing observed
            if buf: got.append(("elem", buf.pop(0))); consumer = "idle"; return
            if reason is not None:
                got.append(reason_obs()); consumer = "idle"; return
            waiting = ["pending"]; consumer = "blocked"; return
        if consumer == "blocked":
            if must:
                if waiting[0] == "res": buf.insert(0, waiting[1])
                got.append(("cancelled",)); consumer = "idle"; must = False; waiting = None; return
            if waiting[0] == "res": got.append(("elem", waiting[1])); consumer = "idle"; waiting = None; return
            if waiting[0] == "exc": got.append(reason_obs()); consumer = "idle"; waiting = None; return
            if waiting[0] == "cancelled": got.append(("cancelled",)); consumer = "idle"; waiting = None; return
    def reason_obs():
        return {"stop": ("stop",), "err": ("err", "e"), "cancel": ("cancelled",)}[reason]
    for op in ops:
        k = op[0]
        if k == "enq":
            vals = list(range(nxt, nxt + op[1])); nxt += op[1]
            if reason is not None: out.append("rt"); continue
            if waiting is not None and waiting[0] == "pending": waiting = ["res", vals[0]]
            else: buf.append(vals[0])
            buf.extend(vals[1:]); out.append("ok")
        elif k in ("fin", "finerr", "cancelq"):
            if reason is None:
                reason = {"fin": "stop", "finerr": "err", "cancelq": "cancel"}[k]
                if waiting is not None and waiting[0] == "pending": waiting = ["exc", reason]
            out.append("ok")
        elif k == "recv":
            if consumer != "idle": out.append("busy"); continue
            consumer = "scheduled"; out.append("ok")
        elif k == "cancelrecv":
            if consumer == "idle": out.append("noop"); continue
            if consumer == "blocked" and waiting[0] == "pending": waiting = ["cancelled"]
            else: must = True
            out.append("ok")
        elif k == "run":
            while consumer == "scheduled" or (consumer == "blocked" and (must or waiting[0] != "pending")): wake()
            out.append("ok")
    while consumer == "scheduled" or (consumer == "blocked" and (must or waiting[0] != "pending")): wake()
    return got, out, consumer == "blocked"

alphabet = [("enq", 1), ("enq", 2), ("fin",), ("finerr",), ("cancelq",), ("recv",), ("cancelrecv",), ("run",)]
def check(ops):
    r = run_real(ops); m = run_model(ops)
    return r == m, r, m
bad = 0; n = 0
for L in range(1, 6):
    for ops in itertools.product(alphabet, repeat=L):
        n += 1
        ok, r, m = check(list(ops))
        if not ok:
            bad += 1
            if bad <= 5: print("DIFF", ops, "\n real ", r, "\n model", m)
print("exhaustive<=5", n, "bad", bad)
rng = random.Random(7)
for i in range(3000):
    ops = [rng.choice(alphabet) for _ in range(rng.randint(6, 40))]
    n += 1
    ok, r, m = check(ops)
    if not ok:
        bad += 1
        if bad <= 8: print("DIFF", ops, "\n real ", r, "\n model", m)
print("total", n, "bad", bad)
