import sys, itertools, asyncio
sys.path.insert(0, "/tmp/probe")
import vloop
from vloop import CLOCK, VLoop
from haiway import retry

class E1(Exception): pass
class E1sub(E1): pass
class E2(Exception): pass
class BE(BaseException): pass
KINDS = ["ok", "e1", "e1sub", "e2", "cancel", "base"]
def make(kind, i):
    return {"ok": None, "e1": E1(i), "e1sub": E1sub(i), "e2": E2(i), "cancel": asyncio.CancelledError(i), "base": BE(i)}[kind]

def model(limit, catching, delay, outs):
    # mirrors Rt.go
    calls = 0; sleeps = []
    attempt = 0
    while True:
        kind = outs[attempt] if attempt < len(outs) else "ok"
        calls += 1
        retryable = kind in ("e1", "e1sub", "e2") and any(issubclass({"e1": E1, "e1sub": E1sub, "e2": E2}[kind], c) for c in catching)
        if attempt < limit and retryable:
            attempt += 1
            if delay[0] == "const": sleeps.append(float(delay[1]))
            elif delay[0] == "fn": sleeps.append(float(attempt * 2))
            continue
        return calls, (kind, calls - 1), sleeps

def real(limit, catching_form, delay, outs, is_async):
    loop = VLoop(); asyncio.set_event_loop(loop)
    calls = [0]; excs = {}
    slept = []
    import time as _t
    orig_sleep = _t.sleep
    catching = {"class": E1, "tuple": (E1, E2), "set": {E1}, "exception": Exception}[catching_form]
    dl = None if delay[0] == "none" else (delay[1] if delay[0] == "const" else (lambda attempt, exc: attempt * 2))
    def body():
        i = calls[0]; calls[0] += 1
        kind = outs[i] if i < len(outs) else "ok"
        if kind == "ok": return ("val", i)
        e = make(kind, i); excs[i] = e; raise e
    if is_async:
        @retry(limit=limit, delay=dl, catching=catching)
        async def f(): return body()
        t0 = CLOCK.now
        marks = []
        t = loop.create_task(f())
        # record virtual time of each call to derive sleeps
        loop.quiesce(advance=True)
        try: res = ("val", t.result()[1]) if not t.cancelled() and t.exception() is None else None
        except BaseException: res = None
        if t.cancelled(): outcome = ("cancel", None, None)
        elif t.exception() is not None:
            e = t.exception(); outcome = (type(e).__name__, e.args[0], any(e is x for x in excs.values()))
        else: outcome = ("ok", t.result()[1], None)
        total_sleep = CLOCK.now - t0
    else:
        t0 = CLOCK.now
        @retry(limit=limit, delay=dl, catching=catching)
        def f(): return body()
        try:
            r = f(); outcome = ("ok", r[1], None)
        except asyncio.CancelledError as e: outcome = ("cancel-exc", e.args[0], any(e is x for x in excs.values()))
        except BaseException as e: outcome = (type(e).__name__, e.args[0], any(e is x for x in excs.values()))
        total_sleep = CLOCK.now - t0
    loop.close()
    return calls[0], outcome, total_sleep

bad = 0; n = 0
catch_sets = {"class": [E1], "tuple": [E1, E2], "set": [E1], "exception": [Exception]}
for limit in (1, 2, 3):
    for cf in catch_sets:
        for delay in (("none",), ("const", 3), ("const", 2.0), ("fn",)):
            for outs in itertools.product(KINDS, repeat=limit + 1):
                for is_async in (False, True):
                    n += 1
                    mc, (mk, mi), ms = model(limit, catch_sets[cf], delay, list(outs))
                    try:
                        rc, ro, rs = real(limit, cf, delay, list(outs), is_async)
                    except BaseException as e:
                        bad += 1
                        if bad <= 5: print("HARNESS/REAL ERROR", limit, cf, delay, outs, is_async, repr(e))
                        continue
                    exp_kind = {"ok": "ok", "e1": "E1", "e1sub": "E1sub", "e2": "E2", "cancel": "cancel" if is_async else "cancel-exc", "base": "BE"}[mk]
                    ok = rc == mc and ro[0] == exp_kind and (ro[1] == mi or ro[0] == "cancel") and (ro[2] in (None, True)) and abs(rs - sum(ms)) < 1e-9
                    if not ok:
                        bad += 1
                        if bad <= 8: print("DIFF", limit, cf, delay, outs, is_async, "real", (rc, ro, rs), "model", (mc, mk, mi, ms))
print("n", n, "bad", bad)
