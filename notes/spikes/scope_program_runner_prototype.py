"""Prototype of the scope-program runner + observed-linearisation replay (design-phase spike).

Runs random multi-task scope programs on the real haiway under the virtual loop, driven by an external
schedule (gate releases / cancellations), logs every harness-visible event in execution order, and replays
the log on a spec-level acceptor (environment stacks, group membership, disposable balance).
"""
import sys, random, collections
sys.path.insert(0, "/tmp/probe")
import vloop
from vloop import CLOCK, VLoop
import asyncio
from haiway import ctx, State, MissingState, MissingContext
from haiway.context.tasks import TaskGroupContext
from haiway.context.metrics import MetricsContext


class A(State):
    v: str = "dA"
class B(State):
    v: str = "dB"
class R(State):
    v: str
FAMILY = [A, B, R]
class Boom(Exception): pass
class BaseBoom(BaseException): pass


# ---------------------------------------------------------------- generator
def gen_program(rng, depth, ids, allow_spawn=True):
    stmts = []
    for _ in range(rng.randint(1, 3)):
        r = rng.random()
        if r < 0.30 or depth == 0:
            ids["probe"] += 1; stmts.append(("probe", ids["probe"]))
        elif r < 0.45:
            ids["gate"] += 1; stmts.append(("await", ids["gate"]))
        elif r < 0.52:
            stmts.append(("raise", rng.choice(["exc", "base"])))
        elif r < 0.60:
            stmts.append(("try", gen_program(rng, depth - 1, ids, allow_spawn)))
        elif r < 0.72 and allow_spawn and ids["task"] < 3:
            ids["task"] += 1
            stmts.append(("spawn", ids["task"], rng.choice(["spawn", "create"]), gen_program(rng, depth - 1, ids, False)))
        else:
            ids["block"] += 1; b = ids["block"]
            sup = []
            for _ in range(rng.randint(0, 2)):
                ids["inst"] += 1; sup.append((rng.randrange(len(FAMILY)), f"s{ids['inst']}"))
            kind = rng.choice(["async", "async", "sync", "upd"])
            disps = []
            if kind == "async" and rng.random() < 0.5:
                for _ in range(rng.randint(1, 2)):
                    ids["disp"] += 1
                    def script():
                        r2 = rng.random()
                        if r2 < 0.6: return "ok"
                        if r2 < 0.8: return "raise"
                        ids["gate"] += 1; return ("wait", ids["gate"])
                    ys = []
                    for _ in range(rng.randint(0, 2)):
                        ids["inst"] += 1; ys.append((rng.randrange(len(FAMILY)), f"y{ids['inst']}"))
                    disps.append((ids["disp"], script(), script(), ys))
            stmts.append(("block", kind, b, sup, disps, gen_program(rng, depth - 1, ids, allow_spawn)))
    return stmts


# ---------------------------------------------------------------- runner (real code)
class Run:
    def __init__(self, rng):
        self.rng = rng
        self.loop = VLoop(); asyncio.set_event_loop(self.loop)
        self.log = []
        self.gates = {}
        self.tasks = {}
        self.group_of_block = {}     # id(group object) -> block id

    def gate(self, g):
        if g not in self.gates: self.gates[g] = self.loop.create_future()
        return self.gates[g]

    def fingerprint(self):
        out = []
        for T in FAMILY:
            try: out.append(ctx.state(T).v)
            except MissingState: out.append("<MissingState>")
            except MissingContext: out.append("<MissingContext>")
        try: label = MetricsContext._context.get().label
        except LookupError: label = None
        try: grp = self.group_of_block.get(id(TaskGroupContext._context.get()), "?")
        except LookupError: grp = None
        return (tuple(out), label, grp)

    def make_disp(self, t, spec):
        run = self
        did, en, ex, ys = spec
        class D:
            async def __aenter__(s):
                run.log.append((t, "denter-start", did))
                try:
                    if en == "raise": raise Boom(f"den{did}")
                    if isinstance(en, tuple): await run.gate(en[1])
                except BaseException as e:
                    run.log.append((t, "denter-end", did, type(e).__name__)); raise
                run.log.append((t, "denter-end", did, "ok"))
                states = [FAMILY[i](v=tag) for i, tag in ys]
                return states if len(states) != 1 else states[0]
            async def __aexit__(s, et, ev, tb):
                run.log.append((t, "dexit-start", did, et.__name__ if et else None))
                try:
                    if ex == "raise": raise Boom(f"dex{did}")
                    if isinstance(ex, tuple): await run.gate(ex[1])
                except BaseException as e:
                    run.log.append((t, "dexit-end", did, type(e).__name__)); raise
                run.log.append((t, "dexit-end", did, "ok"))
        return D()

    async def exec(self, t, stmts):
        for st in stmts:
            k = st[0]
            if k == "probe":
                self.log.append((t, "probe", st[1], self.fingerprint()))
            elif k == "await":
                self.log.append((t, "await-start", st[1]))
                try:
                    await self.gate(st[1])
                except asyncio.CancelledError:
                    self.log.append((t, "await-end", st[1], "cancelled")); raise
                self.log.append((t, "await-end", st[1], "ok"))
            elif k == "raise":
                self.log.append((t, "raise", st[1]))
                raise (Boom("body") if st[1] == "exc" else BaseBoom("body"))
            elif k == "try":
                try:
                    await self.exec(t, st[1])
                    self.log.append((t, "try-ok",))
                except BaseException as e:
                    self.log.append((t, "try-caught", type(e).__name__))
            elif k == "spawn":
                _, c, how, body = st
                coro_fn = self.task_main
                if how == "spawn":
                    try:
                        task = ctx.spawn(coro_fn, c, body)
                    except RuntimeError as e:
                        self.log.append((t, "spawnfail", c)); continue
                else:
                    task = asyncio.get_running_loop().create_task(coro_fn(c, body))
                self.tasks[c] = task
                self.log.append((t, "spawn", c, how))
            elif k == "block":
                _, kind, b, sup, disps, body = st
                insts = [FAMILY[i](v=tag) for i, tag in sup]
                body_exc = None
                try:
                    if kind == "async":
                        cm = ctx.scope(f"b{b}", *insts, disposables=[self.make_disp(t, d) for d in disps] if disps else None)
                        async with cm:
                            self.group_of_block[id(TaskGroupContext._context.get())] = b
                            self.log.append((t, "enter", b))
                            try:
                                await self.exec(t, body)
                            except BaseException as e:
                                body_exc = e; raise
                    elif kind == "sync":
                        with ctx.scope(f"b{b}", *insts):
                            self.log.append((t, "enter", b))
                            try:
                                await self.exec(t, body)
                            except BaseException as e:
                                body_exc = e; raise
                    else:
                        with ctx.updated(*insts):
                            self.log.append((t, "enter", b))
                            try:
                                await self.exec(t, body)
                            except BaseException as e:
                                body_exc = e; raise
                except BaseException as e:
                    self.log.append((t, "left", b, type(e).__name__, e is body_exc, [c for c, tk in self.tasks.items() if not tk.done()]))
                    raise
                self.log.append((t, "left", b, "ok", True, [c for c, tk in self.tasks.items() if not tk.done()]))

    async def task_main(self, t, body):
        self.log.append((t, "start"))
        try:
            await self.exec(t, body)
        except BaseException as e:
            self.log.append((t, "end", type(e).__name__)); raise
        self.log.append((t, "end", "ok"))

    def run(self, prog):
        loop = self.loop
        self.tasks[0] = loop.create_task(self.task_main(0, prog))
        loop.quiesce()
        steps = 0
        while steps < 60:
            steps += 1
            pending_gates = sorted(g for g, f in self.gates.items() if not f.done())
            live = sorted(t for t, tk in self.tasks.items() if not tk.done())
            if not pending_gates: break
            if live and self.rng.random() < 0.2:
                victim = self.rng.choice(live)
                self.log.append(("X", "cancel", victim)); self.tasks[victim].cancel()
            else:
                g = self.rng.choice(pending_gates)
                self.log.append(("X", "release", g)); self.gates[g].set_result(None)
            loop.quiesce()
        hang = [t for t, tk in self.tasks.items() if not tk.done()]
        for tk in self.tasks.values():
            if not tk.done(): tk.cancel()
        loop.quiesce()
        for tk in self.tasks.values():
            if tk.done() and not tk.cancelled(): tk.exception()
        loop.close()
        return hang


# ---------------------------------------------------------------- spec-level acceptor (replay of the log)
def index_program(prog, blocks, spawns):
    for st in prog:
        if st[0] == "block":
            blocks[st[2]] = st; index_program(st[5], blocks, spawns)
        elif st[0] == "try": index_program(st[1], blocks, spawns)
        elif st[0] == "spawn":
            spawns[st[1]] = st; index_program(st[3], blocks, spawns)

def replay(prog, log):
    blocks, spawns = {}, {}
    index_program(prog, blocks, spawns)
    problems = []
    frames = {0: []}         # task -> list of (block, kind, supplied instances [(typeidx, tag)]) ; None frames list = no context
    snapshot = {0: None}     # inherited frames (None = no context at all)
    has_ctx = {0: False}
    member_of = {}           # task -> group block (innermost async scope at spawn) or None
    done = set()
    entered_d, exited_d, started_d = collections.Counter(), collections.Counter(), collections.Counter()
    disp_block = {}
    for b, st in blocks.items():
        for d in st[4]: disp_block[d[0]] = b

    def env(t):
        base = snapshot[t]
        own = frames[t]
        if base is None and not own: return None
        return (base or []) + own

    def expected_fp(t):
        e = env(t)
        out = []
        for i, T in enumerate(FAMILY):
            if e is None: out.append("<MissingContext>"); continue
            val = None
            for fr in reversed(e):
                for (ti, tag) in reversed(fr[2]):
                    if ti == i: val = tag; break
                if val is not None: break
            if val is None:
                val = {"A": "dA", "B": "dB", "R": "<MissingState>"}[T.__name__]
            out.append(val)
        label = None; grp = None
        if e is not None:
            for fr in reversed(e):
                if fr[1] in ("async", "sync") and label is None: label = f"b{fr[0]}"
                if fr[1] == "async" and grp is None: grp = fr[0]
        return (tuple(out), label, grp)

    for ev in log:
        t = ev[0]
        if t == "X": continue
        k = ev[1]
        if k == "start":
            pass
        elif k == "probe":
            exp = expected_fp(t)
            if ev[3] != exp: problems.append(("probe-mismatch", t, ev[2], ev[3], exp))
        elif k == "denter-start": started_d[ev[2]] += 1
        elif k == "denter-end":
            if ev[3] == "ok": entered_d[ev[2]] += 1
        elif k == "dexit-start": exited_d[ev[2]] += 1
        elif k == "enter":
            b = ev[2]; st = blocks[b]
            sup = list(st[3])
            for d in st[4]:
                if entered_d[d[0]] != 1: problems.append(("body-ran-without-disposable", b, d[0]))
                sup += list(d[3])
            frames[t].append((b, st[1], sup))
        elif k == "left":
            b = ev[2]
            # block may be left without having been entered (enter failed)
            if frames[t] and frames[t][-1][0] == b:
                frames[t].pop()
                if blocks[b][1] == "async":
                    alive = [c for c in ev[5] if member_of.get(c) == b]
                    if alive: problems.append(("member-outlives-scope", b, alive))
            for d in blocks[b][4]:
                if entered_d[d[0]] != exited_d[d[0]]: problems.append(("disposable-unbalanced", b, d[0], entered_d[d[0]], exited_d[d[0]]))
                if started_d[d[0]] > 1: problems.append(("disposable-entered-twice", d[0]))
        elif k == "spawn":
            c = ev[2]
            e = env(t)
            snapshot[c] = None if e is None else list(e)
            frames[c] = []
            grp = None
            if e is not None:
                for fr in reversed(e):
                    if fr[1] == "async": grp = fr[0]; break
            member_of[c] = grp if ev[3] == "spawn" else None
        elif k == "end":
            done.add(t)
            if frames[t]: problems.append(("task-ended-inside-block", t, frames[t]))
    # C07 monitor: a cancellation delivered to a live task is never lost
    ends = {ev[0]: ev[2] for ev in log if len(ev) > 1 and ev[1] == "end"}
    for i, ev in enumerate(log):
        if ev[0] == "X" and ev[1] == "cancel":
            t = ev[2]
            started = any(e[0] == t and e[1] == "start" for e in log[:i])
            ended_before = any(e[0] == t and e[1] == "end" for e in log[:i])
            if ended_before: continue
            later = [e for e in log[i:] if e[0] == t]
            caught = any(e[1] == "try-caught" and e[2] == "CancelledError" for e in later)
            replaced = any(e[1] in ("dexit-end", "denter-end") and e[3] == "Boom" for e in later)
            if not started:
                continue   # cancelled before first step: never runs, ends cancelled silently
            if not caught and not replaced and ends.get(t) not in ("CancelledError", None):
                problems.append(("cancel-lost", t, ends.get(t)))
    return problems


def one(seed, verbose=False):
    rng = random.Random(seed)
    ids = collections.Counter()
    prog = gen_program(rng, 3, ids)
    if rng.random() < 0.8:
        ids["block"] += 1
        prog = [("block", "async", ids["block"], [], [], prog)]
    r = Run(random.Random(seed * 7 + 1))
    hang = r.run(prog)
    problems = replay(prog, r.log)
    if hang: problems.append(("hang", hang))
    if verbose:
        print(prog)
        for e in r.log: print("  ", e)
    return problems, len(r.log)


if __name__ == "__main__":
    n = int(sys.argv[1]) if len(sys.argv) > 1 else 2000
    kinds = collections.Counter(); first = {}; events = 0
    for seed in range(n):
        try:
            p, ne = one(seed)
        except Exception as e:
            kinds["harness-error"] += 1; first.setdefault("harness-error", (seed, repr(e))); continue
        events += ne
        for x in p:
            kinds[x[0]] += 1; first.setdefault(x[0], (seed, x))
    print("programs", n, "events", events, dict(kinds))
    for k, v in first.items(): print("  first", k, v)
