import sys, random
sys.path.insert(0, "/tmp/probe")
import vloop
from vloop import CLOCK, VLoop
import asyncio
from datetime import timedelta
from haiway import throttle

def run_case(limit, period, arrivals, durations):
    loop = VLoop(); asyncio.set_event_loop(loop)
    t0 = CLOCK.now
    starts = {}
    @throttle(limit=limit, period=period)
    async def f(i):
        starts[i] = CLOCK.now - t0
        await asyncio.sleep(durations[i])
        return i
    tasks = []
    for i, a in enumerate(arrivals):
        loop.advance_to(t0 + a)
        tasks.append(loop.create_task(f(i)))
        loop.quiesce()
    loop.quiesce(advance=True)
    loop.close()
    assert all(t.done() for t in tasks)
    return [starts[i] for i in range(len(arrivals))]

def closed_form(limit, period, arrivals):
    s = []
    for i, a in enumerate(arrivals):
        v = a
        if i >= 1: v = max(v, s[i-1])
        if i >= limit: v = max(v, s[i-limit] + period)
        s.append(v)
    return s

rng = random.Random(1)
bad = 0
for n in range(3000):
    limit = rng.randint(1, 4); period = rng.choice([1, 2, 5, 10])
    k = rng.randint(1, 12)
    arr = sorted(rng.choice([0, 0, 1, 2, 3, 5, period, period-1, period+1, 2*period]) + rng.randint(0, 3) * rng.randint(0, period) for _ in range(k))
    dur = [rng.choice([0, 0, 1, period, 3*period]) for _ in range(k)]
    s = run_case(limit, float(period), arr, dur)
    cf = closed_form(limit, period, arr)
    ok_window = all(s[i+limit] >= s[i] + period for i in range(len(s)-limit))
    if s != cf or not ok_window or s != sorted(s):
        bad += 1
        if bad < 6: print("MISMATCH", limit, period, arr, s, cf, ok_window)
print("bad", bad)
