import sys, itertools, asyncio
sys.path.insert(0, "/tmp/probe")
import vloop
from vloop import CLOCK, VLoop
from haiway import timeout

class E(Exception): pass
class BE(BaseException): pass

def real(d, kind, ignores, D, c):
    loop = VLoop(); asyncio.set_event_loop(loop)
    handler_calls = []
    loop.set_exception_handler(lambda l, ctx: handler_calls.append(ctx.get("message")))
    seen = {"cancels": 0, "finished": False}
    @timeout(D)
    async def f():
        remaining = d
        ignored = False
        while True:
            t0 = CLOCK.now
            try:
                await asyncio.sleep(remaining)
                break
            except asyncio.CancelledError:
                seen["cancels"] += 1
                if ignores and not ignored:
                    ignored = True; remaining = max(0, remaining - (CLOCK.now - t0)); continue
                raise
        seen["finished"] = True
        if kind == "val": return "v"
        if kind == "exc": raise E("e")
        if kind == "base": raise BE("b")
        if kind == "selfcancel": raise asyncio.CancelledError()
    t0 = CLOCK.now
    caller = loop.create_task(f())
    if c is not None:
        loop.call_at(t0 + c, caller.cancel)
    # run until caller done or nothing left
    loop.quiesce(advance=True)
    if not caller.done():
        out = ("HANG",)
    elif caller.cancelled(): out = ("cancelled",)
    elif caller.exception() is not None: out = (type(caller.exception()).__name__,)
    else: out = ("val",)
    leftover = [t for t in asyncio.all_tasks(loop) if not t.done()]
    res = (out, seen["cancels"], len(leftover), CLOCK.now - t0 if caller.done() else None)
    for t in leftover: t.cancel()
    loop.quiesce(); loop.close()
    return res

def spec(d, kind, ignores, D, c):
    """first of {function finished at d, deadline D, caller cancel c}; ties excluded by the grid"""
    events = [(d, "fin"), (D, "timeout")] + ([(c, "cancel")] if c is not None else [])
    first = min(events)[1]
    if first == "fin": return {"val": "val", "exc": "E", "base": "BE", "selfcancel": "cancelled"}[kind]
    if first == "timeout": return "TimeoutError"
    return "cancelled"

bad = 0; n = 0
for d in (0, 2, 5):
    for kind in ("val", "exc", "base", "selfcancel"):
        for ignores in (False, True):
            for D in (1, 3, 7):
                for c in (None, 0.5, 2.5, 4, 9):
                    times = [d, D] + ([c] if c is not None else [])
                    if len(set(times)) != len(times): continue
                    n += 1
                    r = real(d, kind, ignores, D, c); s = spec(d, kind, ignores, D, c)
                    got = r[0][0]
                    # the function must have seen a cancellation whenever it did not finish first
                    fin_first = min([(d, 'fin'), (D, 't')] + ([(c, 'c')] if c is not None else []))[1] == 'fin'
                    ok = got == s and (fin_first or r[1] >= 1)
                    if not ok:
                        bad += 1
                        if bad <= 10: print("DIFF", dict(d=d, kind=kind, ignores=ignores, D=D, c=c), "real", r, "spec", s)
print("n", n, "bad", bad)
