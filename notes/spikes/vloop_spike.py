import time as _time
class VClock:
    def __init__(s): s.now = 1000.0
    def monotonic(s): return s.now
CLOCK = VClock()
_time.monotonic = CLOCK.monotonic
def _vsleep(d):
    CLOCK.now += max(d, 0)
_time.sleep = _vsleep
import asyncio, heapq

class VLoop(asyncio.SelectorEventLoop):
    def time(self): return CLOCK.now
    def quiesce(self, advance=False, max_iters=100000):
        """run until no ready callbacks; if advance, also jump clock to timers until none left"""
        n = 0
        while True:
            # drop cancelled timers at head
            while self._scheduled and self._scheduled[0]._cancelled:
                h = heapq.heappop(self._scheduled); h._scheduled = False
            if not self._ready:
                if self._scheduled and self._scheduled[0]._when <= CLOCK.now:
                    pass
                elif advance and self._scheduled:
                    CLOCK.now = self._scheduled[0]._when
                else:
                    return n
            self.call_soon(self.stop)   # run exactly one iteration
            self.run_forever()
            n += 1
            if n > max_iters: raise RuntimeError("no quiescence")
    def advance_to(self, t):
        while True:
            self.quiesce()
            while self._scheduled and self._scheduled[0]._cancelled:
                h = heapq.heappop(self._scheduled); h._scheduled = False
            if self._scheduled and self._scheduled[0]._when <= t:
                CLOCK.now = max(CLOCK.now, self._scheduled[0]._when)
            else:
                CLOCK.now = max(CLOCK.now, t); self.quiesce(); return

if __name__ == "__main__":
    from haiway import throttle, cache, AsyncQueue, ctx, timeout
    loop = VLoop(); asyncio.set_event_loop(loop)
    starts = []
    @throttle(limit=1, period=10)
    async def f(i): starts.append((i, CLOCK.now))
    ts = [loop.create_task(f(i)) for i in range(3)]
    loop.quiesce(advance=True)
    print(starts, [t.done() for t in ts])
    # queue external driving
    q = AsyncQueue(loop=loop); got = []
    async def consume():
        async for x in q: got.append(x)
    t = loop.create_task(consume()); loop.quiesce()
    q.enqueue(1); t.cancel(); loop.quiesce(); print(got, t.cancelled())
    @timeout(5)
    async def slow(): await asyncio.sleep(7); return 1
    t = loop.create_task(slow()); t0 = CLOCK.now
    loop.quiesce(advance=True); print(t.exception(), CLOCK.now - t0)
