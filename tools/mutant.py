#!/usr/bin/env python3
"""Development aid: run checks against a scratch copy of /repo/src with one textual mutation applied.
usage: tools/mutant.py <file relative to src/haiway> <old> <new> <Cxx> [<Cxx>...]   (old/new may use \\n)"""
import os, shutil, subprocess, sys, tempfile
rel, old, new, *checks = sys.argv[1:]
old = old.encode().decode("unicode_escape"); new = new.encode().decode("unicode_escape")
d = tempfile.mkdtemp(prefix="hwmut", dir="/tmp")
try:
    shutil.copytree("/repo/src", d + "/src")
    p = f"{d}/src/haiway/{rel}"
    s = open(p).read()
    if s.count(old) < 1:
        sys.exit(f"pattern not found in {rel}")
    open(p, "w").write(s.replace(old, new, 1))
    for c in checks:
        r = subprocess.run(["/verif/check", c], env={**os.environ, "HAIWAY_REPO": d, "VERIF_NO_EVIDENCE": "1"}, capture_output=True, text=True)
        lines = [l for l in r.stdout.splitlines() if l.startswith(("VIOLATION", "KNOWN", c))]
        print(f"== {c} rc={r.returncode}")
        for l in lines[-4:]:
            print("   ", l[:260])
        if r.returncode == 2:
            print(r.stderr[-600:])
finally:
    shutil.rmtree(d, ignore_errors=True)
