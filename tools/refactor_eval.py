#!/usr/bin/env python3
"""Run checks against a behaviour-preserving refactoring (patch.diff + meta.json): every check must stay at exit 0.
usage: tools/refactor_eval.py <srcdir> <id> <Cxx> [<Cxx>...]   -> /verif/seeded/harmless/<id>/"""
import json, os, shutil, subprocess, sys, time
src, rid, *checks = sys.argv[1:]
wt = f"/tmp/refwt_{os.getpid()}"
def sh(cmd):
    return subprocess.run(cmd, shell=True, capture_output=True, text=True)
res = {"id": rid, "checked_at": time.strftime("%Y-%m-%d %H:%M:%S"), "repo_head": sh("git -C /repo rev-parse --short HEAD").stdout.strip()}
try:
    assert sh(f"git -C /repo worktree add -q --detach {wt} HEAD").returncode == 0
    a = sh(f"git -C {wt} apply {src}/patch.diff")
    if a.returncode != 0:
        print(rid, "PATCH DOES NOT APPLY", a.stderr[:200]); sys.exit(3)
    res["tests"] = sh(f"cd {wt} && PYTHONPATH={wt}/src /venv/bin/python -m pytest -q -p no:cacheprovider tests 2>&1 | tail -1").stdout.strip()
    res["checks"] = {}
    alarms = []
    for c in checks:
        for _try in range(8):
            r = subprocess.run(["/verif/check", c], env={**os.environ, "HAIWAY_REPO": wt, "VERIF_NO_EVIDENCE": "1"}, capture_output=True, text=True)
            if r.returncode != 2:
                break
            time.sleep(90)  # infrastructure error (e.g. another builder mid-edit in lean/): wait and retry
        v = [l for l in r.stdout.splitlines() if l.startswith("VIOLATION")]
        res["checks"][c] = {"rc": r.returncode, "violations": [x[:300] for x in v[:3]], "summary": (r.stdout.strip().splitlines() or [""])[-1][:200]}
        if r.returncode != 0:
            alarms.append(c)
            if v:
                try:
                    jd = json.load(open(v[0].split("replay=")[1].split()[0]))
                    res["checks"][c]["replay"] = {k: jd.get(k) for k in ("kind", "signature", "case", "implementation_output", "model_output", "what_no_longer_checks")}
                except Exception: pass
            else:
                res["checks"][c]["stderr"] = r.stderr[-800:]
    out = f"/verif/seeded/harmless/{rid}"
    os.makedirs(out, exist_ok=True)
    if os.path.realpath(src) != os.path.realpath(out):
        shutil.copy(f"{src}/patch.diff", f"{out}/patch.diff")
    meta = json.load(open(f"{src}/meta.json")); meta["verdicts"] = res
    json.dump(meta, open(f"{out}/meta.json", "w"), indent=1)
    print(rid, res["tests"], "ALARMS:" + ",".join(alarms) if alarms else "silent", flush=True)
finally:
    sh(f"git -C /repo worktree remove --force {wt}")
