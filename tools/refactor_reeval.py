#!/usr/bin/env python3
"""Re-run tools/refactor_eval.py for every behaviour-preserving refactoring under seeded/harmless with the checks recorded in its
meta.json plus any extra ones given (every check must stay silent).  usage: tools/refactor_reeval.py [-j N] [+Cxx ...] [id-prefix ...]"""
import glob, json, os, subprocess, sys
from concurrent.futures import ThreadPoolExecutor
args = sys.argv[1:]
j = 4
if args[:1] == ["-j"]:
    j = int(args[1]); args = args[2:]
extra = [a[1:] for a in args if a.startswith("+")]
args = [a for a in args if not a.startswith("+")]
ids = sorted(os.path.basename(os.path.dirname(f)) for f in glob.glob("/verif/seeded/harmless/*/meta.json"))
ids = [i for i in ids if not args or any(i.startswith(a) for a in args)]
def one(rid):
    m = json.load(open(f"/verif/seeded/harmless/{rid}/meta.json"))
    checks = list(((m.get("verdicts") or {}).get("checks") or {}).keys())
    checks += [c for c in extra if c not in checks]
    r = subprocess.run(["python3", "/verif/tools/refactor_eval.py", f"/verif/seeded/harmless/{rid}", rid, *checks], capture_output=True, text=True)
    return rid, (r.stdout + r.stderr)
with ThreadPoolExecutor(j) as ex:
    for rid, out in ex.map(one, ids):
        print("\n".join(l for l in out.splitlines() if "conda" not in l), flush=True)
