#!/bin/sh
# tools/regen_eval.sh <group> <seed-id>...   – which regenerated obligations break / are skipped on a seeded change
grp=$1; shift
for s in "$@"; do
  wt=/tmp/regwt_$$
  git -C /repo worktree add -q --detach $wt HEAD || exit 2
  if git -C $wt apply /verif/seeded/$s/patch.diff 2>/dev/null; then
    echo "== $s"; HAIWAY_REPO=$wt VERIF_NO_REGEN_CACHE=1 /venv/bin/python -m harness.regen $grp 2>&1 | grep -v "conda\| ok " | cut -c1-260
  else echo "== $s: patch does not apply"; fi
  git -C /repo worktree remove --force $wt
done
