#!/usr/bin/env python3
"""Confirm a seeded change (patch.diff + demo.py + meta.json in a directory) and run checks against it.
usage: tools/seed_eval.py <srcdir> <seed-id> <Cxx> [<Cxx>...]
 1. scratch worktree of /repo HEAD under /tmp, patch applied; 2. pinned test suite must pass; 3. demo must exit 1 with the
 change and 0 without; 4. each check is run with HAIWAY_REPO=<worktree> (quick tier) and its verdict recorded;
 5. everything is stored as /verif/seeded/<seed-id>/ and the worktree removed."""
import json, os, shutil, subprocess, sys, time
src, sid, *checks = sys.argv[1:]
wt = f"/tmp/seedwt_{os.getpid()}"
def sh(cmd, **kw):
    return subprocess.run(cmd, shell=True, capture_output=True, text=True, **kw)
res = {"id": sid, "checked_at": time.strftime("%Y-%m-%d %H:%M:%S"), "repo_head": sh("git -C /repo rev-parse --short HEAD").stdout.strip()}
try:
    assert sh(f"git -C /repo worktree add -q --detach {wt} HEAD").returncode == 0
    a = sh(f"git -C {wt} apply {src}/patch.diff")
    res["applies"] = a.returncode == 0
    if not res["applies"]:
        print("PATCH DOES NOT APPLY", a.stderr[:300]); sys.exit(3)
    t = sh(f"cd {wt} && PYTHONPATH={wt}/src /venv/bin/python -m pytest -q -p no:cacheprovider tests 2>&1 | tail -1")
    res["tests"] = t.stdout.strip()
    d1 = sh(f"cd /tmp && PYTHONPATH={wt}/src timeout 120 /venv/bin/python {src}/demo.py")
    d0 = sh(f"cd /tmp && PYTHONPATH=/repo/src timeout 120 /venv/bin/python {src}/demo.py")
    res["demo_with_change_rc"], res["demo_without_change_rc"] = d1.returncode, d0.returncode
    res["checks"] = {}
    for c in checks:
        for _try in range(8):
            r = subprocess.run(["/verif/check", c], env={**os.environ, "HAIWAY_REPO": wt, "VERIF_NO_EVIDENCE": "1"}, capture_output=True, text=True)
            if r.returncode != 2:
                break
            time.sleep(90)  # infrastructure error (another builder mid-edit in lean/): wait and retry
        v = [l for l in r.stdout.splitlines() if l.startswith("VIOLATION")]
        res["checks"][c] = {"rc": r.returncode, "violations": [x[:300] for x in v[:3]], "summary": (r.stdout.strip().splitlines() or [""])[-1][:300]}
        if v:
            rp = v[0].split("replay=")[1].split()[0]
            try:
                jd = json.load(open(rp)); res["checks"][c]["replay"] = {k: jd.get(k) for k in ("kind", "signature", "case", "what_no_longer_checks")}
            except Exception: pass
    out = f"/verif/seeded/{sid}"
    os.makedirs(out, exist_ok=True)
    for f in ("patch.diff", "demo.py"):
        if os.path.realpath(f"{src}/{f}") != os.path.realpath(f"{out}/{f}"):
            shutil.copy(f"{src}/{f}", f"{out}/{f}")
    meta = json.load(open(f"{src}/meta.json"))
    prev = {}
    try:
        prev = (json.load(open(f"{out}/meta.json")).get("confirmation") or {}).get("checks") or {}
    except Exception:
        pass
    meta.pop("confirmation", None)
    res["checks"] = {**prev, **res["checks"]}   # verdicts accumulate per check; re-evaluated ones are replaced
    meta["confirmation"] = res
    json.dump(meta, open(f"{out}/meta.json", "w"), indent=1)
    ok = "65 passed" in res["tests"] and d1.returncode != 0 and d0.returncode == 0
    print(sid, "CONFIRMED" if ok else "NOT-CONFIRMED", res["tests"], "demo:", d1.returncode, d0.returncode)
    for c, v in res["checks"].items():
        print("  ", c, "rc", v["rc"], (v.get("replay") or {}).get("signature") or (v.get("replay") or {}).get("kind") or "", "|", v["summary"][:120])
finally:
    sh(f"git -C /repo worktree remove --force {wt}")
