#!/usr/bin/env python3
"""Prepare a round of seed agents: one scratch worktree /tmp/<tag>_<Cxx> of /repo HEAD, an output directory and a prompt
file per property.  The prompt holds ONLY the property's text (nothing from /verif).
usage: tools/seed_prompt.py <tag> <Cxx>..."""
import json, os, subprocess, sys
tag, *pids = sys.argv[1:]
props = {json.loads(l)['id']: json.loads(l) for l in open('/verif/properties.jsonl')}
T = '''You are helping evaluate a verification tool by producing realistic, SUBTLE regressions in a small Python 3.12 library (miquido/haiway: contextvar-scoped immutable state, nested scope metrics, task groups, cache/retry/throttle/timeout decorators).

Your own scratch git worktree of the library is at {wt} (source under {wt}/src/haiway, tests under {wt}/tests). Work ONLY inside {wt} and {out}. Do NOT read or touch /verif or /repo or any other /tmp/* directory — your work must be independent of them.

Run Python as:  cd {wt} && PYTHONPATH={wt}/src /venv/bin/python ...
Run the existing test suite as:  cd {wt} && PYTHONPATH={wt}/src /venv/bin/python -m pytest -q -p no:cacheprovider tests   (65 tests, all must still pass with each of your changes).

THE PROPERTY (id {pid}: {title}):
{statement}

It is meant to hold: {quant}

Files/mechanisms it is anchored in (line numbers may have drifted; the descriptions were written for an older revision, read the current code): {anchors}

TASK: produce THREE different code changes to the library (each independent, each applied to the pristine worktree on its own) such that, for each change:
 (a) the library still imports, and all 65 existing tests still pass;
 (b) the change BREAKS the property above on the real code;
 (c) it looks like something a maintainer could plausibly commit (a refactoring, an optimisation, a 'simplification', a fix for something else, a reordering, a defensive check, support for a new use case) — not sabotage, no dead giveaways, no special-casing of magic values;
 (d) it needs something SPECIFIC to manifest — a particular interleaving, a crash/fault/cancellation at a particular point, a multi-step sequence of operations, an unusual input, a second use of the same object, an object built in one place and used in another, or two cooperating sites that each look fine alone. Ordinary use must NOT expose it at once. The three changes must differ in kind from each other (different code sites AND different clauses of the property). Several earlier rounds of evaluators already tried the obvious things for this property (swapping an operator or a deque end, dropping a finally, narrowing `except BaseException` to `except Exception`, off-by-one in a limit, removing a shield, keying by equality instead of identity or by name instead of object, dropping type information from keys, reordering cleanup steps, truthiness tests on values, a fallback that also catches the user's exception, state shared between calls of one wrapper); go for less-travelled territory: error paths inside error paths, re-entrancy and recursion (the wrapped function calling the wrapper again), values that are falsy / equal-but-distinct / unhashable / exceptions used as data, boundary instants and ties, ordering of simultaneous events, garbage collection and identity reuse, objects constructed in one context and used in another (another task, another thread, a callback, a generator resumed elsewhere), state surviving from a previous use, laziness (generators, iterators consumed later), subclasses and inheritance, caching or memoisation added for speed, interactions between two features of the library (e.g. this feature used inside/around scopes, streams, other decorators).
 (e) you supply a demonstration: a standalone script demo.py (run as `PYTHONPATH=<tree>/src /venv/bin/python demo.py`, no arguments, no network, deterministic, finishing in under 60 s) which exits 0 on the pristine library and exits 1 (printing what went wrong) with the change applied. The demo must use only the library's public behaviour and the standard library, and must check the property clause that is broken (not an implementation detail).

Read the relevant source first so your changes are well-targeted. For each change k in 1..3, write into {out}/k/ :
   patch.diff   — output of `git -C {wt} diff` for that change alone (must apply with `git apply` to the pristine tree)
   demo.py      — the demonstration
   meta.json    — {{"property": "{pid}", "summary": "<what was changed and the plausible motivation>", "needs": "<what is needed for it to manifest; what still behaves correctly>", "why_tests_pass": "<why the 65 tests do not notice>"}}
After producing each patch, reset the worktree (git -C {wt} checkout -- . ; git -C {wt} clean -fdq) and VERIFY: on the pristine tree demo exits 0; apply patch; tests pass (65 passed); demo exits 1; reset again. Only keep changes for which you verified all of that yourself. Leave the worktree pristine at the end. If, while reading, you notice behaviour of the PRISTINE library that already violates the property, mention it in your final answer (one line each, with a minimal reproduction).

Final answer: a short list of the three changes (one line each), confirmation of the verification results, and any pristine-tree violations you noticed.'''
for pid in pids:
    p = props[pid]
    wt, out = f"/tmp/{tag}_{pid}", f"/tmp/{tag}_{pid}_out"
    subprocess.run(f"git -C /repo worktree add -q --detach {wt} HEAD", shell=True, check=True)
    os.makedirs(out, exist_ok=True)
    open(f"/tmp/{tag}_{pid}_prompt.txt", "w").write(T.format(wt=wt, out=out, pid=pid, title=p['title'], statement=p['statement'],
                                                              quant=p['quantifier']['text'], anchors=json.dumps(p['anchors'])))
    print(f"/tmp/{tag}_{pid}_prompt.txt")
