#!/usr/bin/env python3
"""Carry a seeded change over to /repo's HEAD after a repair touched the same lines.
usage: tools/seed_rebase.py <seed-id>...
`git apply --3way` in a scratch worktree; inside conflict hunks the change's side is kept (it rewrites the statement the repair
edited), everything else of the repair stays.  The agent's original diff is kept as patch.orig.diff; meta.json gets `rebased`."""
import json, os, re, subprocess, sys
def sh(c, **k): return subprocess.run(c, shell=True, capture_output=True, text=True, **k)
for sid in sys.argv[1:]:
    d = f"/verif/seeded/{sid}"
    if sh(f"git -C /repo apply --check {d}/patch.diff").returncode == 0:
        print(sid, "applies already"); continue
    wt = f"/tmp/rebase_{os.getpid()}"
    sh(f"git -C /repo worktree add -q --detach {wt} HEAD")
    try:
        r = sh(f"git -C {wt} apply --3way {d}/patch.diff")
        files = [l[3:] for l in sh(f"git -C {wt} status --short").stdout.splitlines() if l[:2] in ("UU", "U ", " U", "AA")]
        for f in files:
            p = f"{wt}/{f}"; s = open(p).read()
            s = re.sub(r"<<<<<<< ours\n.*?=======\n(.*?)>>>>>>> theirs\n", r"\1", s, flags=re.S)
            open(p, "w").write(s)
        left = sh(f"grep -rl '<<<<<<< ours' {wt}/src").stdout.strip()
        if left or (r.returncode != 0 and not files):
            print(sid, "NOT rebased:", r.stderr[-300:], left); continue
        sh(f"git -C {wt} reset -q")
        diff = sh(f"git -C {wt} diff HEAD").stdout
        if not diff.strip():
            print(sid, "empty diff after rebase"); continue
        if not os.path.exists(f"{d}/patch.orig.diff"):
            os.rename(f"{d}/patch.diff", f"{d}/patch.orig.diff")
        open(f"{d}/patch.diff", "w").write(diff)
        m = json.load(open(f"{d}/meta.json"))
        m["rebased"] = ("patch.diff is the agent's change carried over to HEAD after a repair touched the same lines (inside the "
                        "conflicting hunks the change's version is kept); the agent's original diff is patch.orig.diff")
        json.dump(m, open(f"{d}/meta.json", "w"), indent=1)
        print(sid, "rebased,", len(diff.splitlines()), "lines")
    finally:
        sh(f"git -C /repo worktree remove --force {wt}")
