#!/usr/bin/env python3
"""Re-run tools/seed_eval.py for every seeded change with the checks recorded in its meta.json (verdicts refreshed against
the current /repo HEAD and the current harness).  usage: tools/seed_reeval.py [-j N] [id-prefix ...]"""
import glob, json, os, subprocess, sys
from concurrent.futures import ThreadPoolExecutor
args = sys.argv[1:]
j = 4
if args[:1] == ["-j"]:
    j = int(args[1]); args = args[2:]
ids = sorted(os.path.basename(os.path.dirname(f)) for f in glob.glob("/verif/seeded/*/meta.json"))
ids = [i for i in ids if not args or any(i.startswith(a) for a in args)]
def one(sid):
    m = json.load(open(f"/verif/seeded/{sid}/meta.json"))
    checks = list(((m.get("confirmation") or {}).get("checks") or {}).keys()) or [m["property"]]
    r = subprocess.run(["python3", "/verif/tools/seed_eval.py", f"/verif/seeded/{sid}", sid, *checks], capture_output=True, text=True)
    return sid, (r.stdout + r.stderr)
with ThreadPoolExecutor(j) as ex:
    for sid, out in ex.map(one, ids):
        lines = [l for l in out.splitlines() if "conda" not in l]
        print("\n".join(lines), flush=True)
