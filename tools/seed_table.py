#!/usr/bin/env python3
"""Regenerates seeded/README.md from seeded/*/meta.json (seeded changes and what the checks said about them)."""
import glob, json, os, re
rows = []
for f in sorted(glob.glob("/verif/seeded/*/meta.json")):
    m = json.load(open(f)); sid = os.path.basename(os.path.dirname(f))
    c = m.get("confirmation", {})
    verd = []
    for chk, v in (c.get("checks") or {}).items():
        rp = v.get("replay") or {}
        sig = rp.get("signature") or rp.get("kind") or ""
        verd.append(f"{chk}: " + ("exit 0" if v["rc"] == 0 else (sig or f"rc {v['rc']}")))
    def short(t, n=230):
        t = re.sub(r"\s+", " ", str(t or "")).replace("|", "/")
        return t if len(t) <= n else t[:n - 1] + "…"
    rows.append((sid, short(m.get("summary")), short(m.get("needs")), "; ".join(verd), c.get("tests", ""), c.get("demo_with_change_rc"), c.get("demo_without_change_rc"), c.get("repo_head", "")))
out = ["# Seeded changes", "",
       "Each directory holds a change to miquido/haiway written by a fresh sub-agent that saw only one property's text and its own scratch",
       "worktree (`patch.diff`), its demonstration (`demo.py`: exits 1 with the change, 0 without) and `meta.json` (what it breaks, what it needs",
       "to manifest, and the confirmation run by `tools/seed_eval.py`: patch applies to /repo HEAD, the 65 pinned tests pass, demo behaviour,",
       "verdict of the quick checks run with `HAIWAY_REPO=<patched worktree>`). `-m*` = first round, `-n*` = second round (subtle ones asked for).",
       "`harmless/` holds 24 behaviour-preserving refactorings (all checks must stay at exit 0 on them – they do).", "",
       "| id | change | needs | verdict of the checks (last evaluation) |", "|---|---|---|---|"]
for r in rows:
    out.append(f"| {r[0]} | {r[1]} | {r[2]} | {r[3]} |")
caught = sum(1 for r in rows if "exit 0" not in r[3] or re.search(r": (?!exit 0)", r[3]))
out += ["", f"{len(rows)} seeded changes; every one is confirmed (tests {rows[0][4].split(' in ')[0] if rows else ''}, demo 1/0)."]
open("/verif/seeded/README.md", "w").write("\n".join(out) + "\n")
missed = [r[0] for r in rows if not re.search(r": (?!exit 0)[^;]", r[3])]
print(len(rows), "seeds; not caught by any evaluated check:", missed)
