#!/bin/sh
# tools/sweep.sh <tier> <seed>...   – run every enabled check at the tier with each seed on the current tree; print one line per run.
# (development aid: false-alarm hunt on the unchanged tree; used with `vp run`)
HERE="$(cd "$(dirname "$0")/.." && pwd)"
cd "$HERE"
( cd lean && lake build hwmodel $(sed 's/^/Haiway.Props./' ../harness/enabled.txt | tr '\n' ' ') >/dev/null 2>&1 ) || { echo "BUILD FAILED"; exit 2; }
tier="$1"; shift
for seed in "$@"; do
  for c in $(cat harness/enabled.txt); do
    out=$(VERIF_SEED=$seed VERIF_NO_EVIDENCE=1 ./check $c --tier $tier 2>&1); rc=$?
    echo "seed=$seed $c rc=$rc $(echo "$out" | grep -c '^VIOLATION') viol | $(echo "$out" | tail -1 | cut -c1-160)"
    [ $rc -ne 0 ] && echo "$out" | grep -E '^(VIOLATION|KNOWN|ERROR)' | head -5
  done
done
