#!/bin/sh
# tools/sweep_some.sh "<checks>" <tier> <seed>...   – like sweep.sh for a subset of the checks
HERE="$(cd "$(dirname "$0")/.." && pwd)"; cd "$HERE"
checks="$1"; tier="$2"; shift 2
( cd lean && lake build hwmodel $(for c in $checks; do echo Haiway.Props.$c; done) Haiway.Bridge.Contexts Haiway.Bridge.Queue Haiway.Bridge.ScopeStateEndToEnd Haiway.Bridge.ScopeStateInit Haiway.Bridge.Missing Haiway.Bridge.MetricsEndToEnd Haiway.Bridge.MetricsViewEndToEnd Haiway.Bridge.Spawn Haiway.Bridge.RetryEndToEnd Haiway.Bridge.CacheEndToEnd Haiway.Bridge.ThrottleEndToEnd Haiway.Bridge.StateObj Haiway.Bridge.StateInit Haiway.Bridge.Completion Haiway.Bridge.Adopt Haiway.Bridge.Wrap Haiway.Bridge.LogScope Haiway.Bridge.DispExit Haiway.Bridge.Cancel Haiway.Bridge.Timeout >/dev/null 2>&1 ) || { echo "BUILD FAILED"; exit 2; }
for seed in "$@"; do
  for c in $checks; do
    out=$(VERIF_SEED=$seed VERIF_NO_EVIDENCE=1 ./check $c --tier $tier 2>&1 | grep -v "^case:\|^  implementation:\|^  model:\|^  monitor:"); rc=$?
    v=$(echo "$out" | grep -c '^VIOLATION')
    echo "seed=$seed $c viol=$v | $(echo "$out" | tail -1 | cut -c1-160)"
    [ "$v" != "0" ] && echo "$out" | grep -E '^(VIOLATION|ERROR)' | head -5
  done
done
