#!/usr/bin/env python3
"""Regenerates MANIFEST.json from harness/registry/Cxx.json (kept valid at all times)."""
import json
from pathlib import Path

HERE = Path(__file__).resolve().parent
reg = {f.stem: json.loads(f.read_text()) for f in sorted((HERE / "harness" / "registry").glob("C*.json"))}
enabled = set((HERE / "harness" / "enabled.txt").read_text().split())
props = [json.loads(l) for l in (HERE / "properties.jsonl").read_text().splitlines() if l.strip()]
checks, na = [], []
for p in props:
    pid = p["id"]
    r = reg.get(pid)
    if r and r.get("claimed") and pid in enabled:
        checks.append({
            "property_id": pid,
            "quick_cmd": f"./check {pid} --tier quick",
            "thorough_cmd": f"./check {pid} --tier thorough",
            "evidence_file": f"evidence/{pid}.json",
            "replay_cmd_template": f"./check {pid} --replay {{path}}",
            "engine": "lean4-proof+correspondence",
            "level_claimed": {"category": "proof", "text": r["level_text"], "design_ref": r.get("design_ref", f"DESIGN.md §6 {pid}")},
            "level_note": r["level_note"],
            "technique": r.get("technique", "Lean 4 theorems over a hand-written executable model + differential correspondence check against /repo"),
        })
    else:
        na.append({"property_id": pid, "reason": (r or {}).get("reason") if r and not r.get("claimed") and r.get("reason") else "check still under construction / not yet validated on the unchanged tree; no claim is made yet"})
m = {
    "version": 1,
    "setup_cmd": "cd lean && lake build hwmodel " + " ".join(f"Haiway.Props.{c['property_id']}" for c in checks)
                 + " Haiway.Bridge.Contexts Haiway.Bridge.Queue Haiway.Bridge.ScopeStateEndToEnd Haiway.Bridge.ScopeStateInit Haiway.Bridge.Missing Haiway.Bridge.MetricsEndToEnd Haiway.Bridge.MetricsViewEndToEnd Haiway.Bridge.Spawn Haiway.Bridge.RetryEndToEnd Haiway.Bridge.CacheEndToEnd Haiway.Bridge.ThrottleEndToEnd Haiway.Bridge.StateObj Haiway.Bridge.StateInit Haiway.Bridge.Completion Haiway.Bridge.Adopt Haiway.Bridge.Wrap Haiway.Bridge.LogScope Haiway.Bridge.DispExit Haiway.Bridge.Cancel Haiway.Bridge.Timeout",
    "hooks": {
        "guard": "HAIWAY_VERIF",
        "enable": "no source hooks: checks import /repo/src in-process with HAIWAY_VERIF=1 set (unused by the library)",
        "baseline_off_cmd": "cd /repo && /venv/bin/python -m pytest -ra -q -p no:cacheprovider --timeout=900 --continue-on-collection-errors",
        "source_commits": [],
        "add_only": True,
    },
    "engines": [{
        "name": "lean4-proof+correspondence", "path": "lean/ harness/ check",
        "serves_properties": [c["property_id"] for c in checks],
        "kind_free_text": "Lean 4 theorems (kernel-checked, axioms audited) about hand-written executable models; compiled model driver hwmodel compared with the real haiway package on generated cases; property monitors on the implementation's observations; for the scope enter/exit procedures, the three context managers, ScopeState, AsyncQueue and Missing the methods are translated from the current source into Lean terms on every run and refinement obligations are re-proved",
    }],
    "checks": checks,
    "not_applicable": na,
    "notes": "See DESIGN.md. Exit codes: 0 held, 1 VIOLATION, 2 infrastructure error (nothing claimed).",
}
(HERE / "MANIFEST.json").write_text(json.dumps(m, indent=1) + "\n")
print(f"{len(checks)} checks, {len(na)} not_applicable")
